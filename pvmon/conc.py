"""Concurrent phases: the same raw library calls issued from several threads at once over SHARED objects.

Shape: record a history at the boundary, check it offline.  Every thread appends (index, 'ok'|'exc', value) to its own
list - the Monitor is never touched from a worker thread - and the caller judges the recorded history afterwards,
single-threaded, with the property's ordinary oracle.  The caller silences the contracts for the duration of the phase
(`M.quiet += 1`): a contract wrapper then only reads `M.quiet` and passes through.

Interleavings come from a very short interpreter switch interval (1 us: the GIL is offered at every eligible bytecode
boundary) and from releasing all threads together, by a barrier, at the start of every chunk, so that the FIRST use of a
freshly built shared object happens in several threads at once.  The counters returned say what was actually interleaved:
the number of (item, thread) executions and the number of items on which at least two threads overlapped in time
(call/return timestamps taken from one monotonic clock around each call).
"""
from __future__ import annotations

import sys
import threading
import time


def run(items, fn, nthreads=4, chunk=40, switch=1e-6, join_timeout=300, tick=None):
    """every thread calls fn(item) for every item; -> (history, stats)
    history: list of (thread, index, 'ok'|'exc', value); stats: dict(executions, overlapped_items, threads)"""
    n = len(items)
    out = [[] for _ in range(nthreads)]
    spans = [[None] * n for _ in range(nthreads)]
    bar = threading.Barrier(nthreads)
    clock = time.perf_counter_ns

    def body(t):
        rec = out[t].append
        sp = spans[t]
        for lo in range(0, n, chunk):
            try:
                bar.wait(timeout=join_timeout)
            except threading.BrokenBarrierError:
                return
            for i in range(lo, min(n, lo + chunk)):
                t0 = clock()
                try:
                    v = fn(items[i])
                except BaseException as e:  # noqa: BLE001 - recorded, judged by the caller (PanicException of the overflow-checked build is a BaseException)
                    sp[i] = (t0, clock())
                    rec((t, i, "exc", e))
                    continue
                sp[i] = (t0, clock())
                rec((t, i, "ok", v))

    old = sys.getswitchinterval()
    sys.setswitchinterval(switch)
    ths = [threading.Thread(target=body, args=(t,), daemon=True) for t in range(nthreads)]
    try:
        for th in ths:
            th.start()
        # the caller's per-step CPU watchdog counts the CPU time of all threads: `tick` (Monitor.progress) re-arms it while the
        # workers make progress (the number of recorded outcomes grows); a phase that stops advancing is left to trip it
        deadline = time.monotonic() + join_timeout
        seen = -1
        while any(th.is_alive() for th in ths) and time.monotonic() < deadline:
            ths[0].join(0.25)
            done = sum(len(o) for o in out)
            if tick is not None and done != seen:
                tick()
            seen = done
    finally:
        sys.setswitchinterval(old)
    alive = sum(th.is_alive() for th in ths)
    overl = 0
    for i in range(n):
        ss = sorted(s[i] for s in spans if s[i] is not None)
        if any(ss[j + 1][0] < ss[j][1] for j in range(len(ss) - 1)):
            overl += 1
    hist = [r for o in out for r in o]
    return hist, {"executions": len(hist), "overlapped_items": overl, "threads": nthreads, "threads_stuck": alive}


def differential(M, items, one, sig, nthreads=6, chunk=40, monitor="concurrent", show=repr):
    """Property-agnostic use of run(): `one(item)` (a deterministic library call returning a comparable value) is evaluated
    by several threads at once with the contracts silenced, then once more single-threaded WITH the contracts active (so
    the ordinary oracle judges that reference value); every recorded outcome must be the reference outcome - same value, or
    the same exception type.  Returns the stats of run()."""
    M.quiet += 1
    try:
        hist, st = run(items, one, nthreads=nthreads, chunk=chunk, tick=M.progress)
    finally:
        M.quiet -= 1
    ref = []
    for n_, it in enumerate(items):
        if n_ % 64 == 0:
            M.progress()
        try:
            ref.append(("ok", one(it)))
        except Exception as e:  # noqa: BLE001
            ref.append(("exc", type(e).__name__))
    for n_, (t, i, kind, v) in enumerate(hist):
        if n_ % 256 == 0:
            M.progress()
        r = ref[i]
        if kind == "exc":
            ok = r == ("exc", type(v).__name__)
            M.check(monitor, ok, f"{sig}:raised-{type(v).__name__}", "a call raised while other threads made the same calls (it does not single-threaded)",
                    item=show(items[i])[:300], exc=repr(v)[:200], thread=t, single_threaded=repr(r)[:200])
        else:
            ok = r == ("ok", v)
            M.check(monitor, ok, f"{sig}:differs-from-single-threaded", "a call made while other threads made the same calls returned another value than single-threaded",
                    item=show(items[i])[:300], got=repr(v)[:300], thread=t, single_threaded=repr(r)[:300])
    for k_, v_ in st.items():
        M.count("concurrent." + k_, v_)
    return st
