"""One shard = one process.  python -m pvmon.worker '<json spec>'

spec: prop tier seed shard nshards config so out [replay]
config: ext1 (fresh release build bound), ext0 (pure Python bound), ovf (overflow-checked build bound)
The fresh extension is pre-seeded as pendulum._pendulum in every config, so both
implementations stay reachable in-process; PENDULUM_EXTENSIONS decides what pendulum binds.
"""
from __future__ import annotations

import array
import faulthandler
import importlib
import importlib.machinery
import importlib.util
import json
import os
import signal
import sys
import time
import traceback


class CaseTimeout(BaseException):
    def __init__(self, where, stack):
        super().__init__(where)
        self.where, self.stack = where, stack


def _on_alarm(signum, frame):
    where, stack = "?", []
    f = frame
    while f is not None:
        fn = f.f_code.co_filename
        if "/pendulum/" in fn and "/pvmon/" not in fn:
            stack.append(f"{os.path.basename(fn)}:{f.f_code.co_name}:{f.f_lineno}")
        f = f.f_back
    if stack:
        where = stack[-1].rsplit(":", 1)[0]      # outermost pendulum frame: stable across runs
    raise CaseTimeout(where, stack[:8])


def bootstrap(spec):
    from pvmon import common

    if spec.get("suite"):
        os.environ.pop("TZ", None)        # tests/tz/test_local_timezone.py inspects the environment itself
    else:
        os.environ["TZ"] = spec.get("tz") or "UTC"
    os.environ["PENDULUM_EXTENSIONS"] = "0" if spec["config"] == "ext0" else "1"
    time.tzset()
    if spec.get("calendar_first") is not None and not spec.get("suite"):
        import calendar

        calendar.setfirstweekday(spec["calendar_first"])
    src = os.path.join(common.REPO, "src")
    if src in sys.path:
        sys.path.remove(src)
    sys.path.insert(0, src)
    if os.path.isdir(common.DEPS) and common.DEPS not in sys.path:
        sys.path.append(common.DEPS)
    so = spec.get("so")
    if so:
        # pre-seed the freshly built extension (never the stale in-tree .so)
        import importlib.abc  # noqa: F401

        class _Finder:
            @staticmethod
            def find_spec(name, path=None, target=None):
                if name == "pendulum._pendulum":
                    loader = importlib.machinery.ExtensionFileLoader(name, so)
                    return importlib.util.spec_from_file_location(name, so, loader=loader)
                return None

        sys.meta_path.insert(0, _Finder)
    import pendulum  # noqa: F401

    if spec.get("decimal_prec") and not spec.get("suite"):
        import decimal

        decimal.getcontext().prec = spec["decimal_prec"]
    if spec.get("week_start") is not None and not spec.get("suite"):
        pendulum.week_starts_at(pendulum.WeekDay(spec["week_start"]))
        pendulum.week_ends_at(pendulum.WeekDay((spec["week_start"] - 1) % 7))
    pf = os.path.realpath(pendulum.__file__)
    if not pf.startswith(os.path.realpath(src)):
        raise RuntimeError(f"pendulum imported from {pf}, expected under {src}")
    if so:
        import pendulum._pendulum as ext

        if os.path.realpath(ext.__file__) != os.path.realpath(so):
            raise RuntimeError(f"extension loaded from {ext.__file__}, expected {so}")
        import pendulum.helpers as H

        bound_ext = H.precise_diff is ext.precise_diff
        if bound_ext != (spec["config"] != "ext0"):
            raise RuntimeError(f"backend binding mismatch: config={spec['config']} bound_ext={bound_ext}")


def main():
    spec = json.loads(sys.argv[1])
    faulthandler.enable()
    from pvmon.mon import Monitor

    t0 = time.time()
    M = Monitor(spec["prop"], spec["config"], spec["tier"], spec["seed"], spec["shard"], spec["nshards"])
    res = None
    try:
        bootstrap(spec)
        mod = importlib.import_module("pvmon.props." + spec["prop"].lower())
        M.spec = spec
        mod.setup(M)
        if "replay" in spec:
            cases = [spec["replay"]]
        elif spec.get("suite"):
            cases = []
            rc_, lost_ = _run_suite(spec)
            M.count("suite_rc", rc_ + 1000)
            M.count("suite_stable_pass_lost", max(lost_, 0))
            if lost_ != 0:
                M.notes.append(f"suite under contracts: {spec.get('_suite')}")
        else:
            cases = mod.cases(M)
        n = nhang = 0
        budget = float(getattr(mod, "CASE_CPU_BUDGET_S", 20))
        signal.signal(signal.SIGVTALRM, _on_alarm)
        seg = {"t": time.process_time(), "max": 0.0, "case": None}

        def _arm():
            # longest stretch of CPU time between two (re)arms: what the watchdog actually compares with its budget;
            # reported so that a bulk case drifting towards the budget is seen before it becomes a false alarm
            now = time.process_time()
            if now - seg["t"] > seg["max"]:
                seg["max"], seg["case"] = now - seg["t"], M.current
            seg["t"] = now
            signal.setitimer(signal.ITIMER_VIRTUAL, budget)

        M.rearm = _arm
        for case in cases:
            M.current = case
            n += 1
            seg["t"] = time.process_time()
            # per-case watchdog on the process's own CPU time (immune to machine load): a case normally takes
            # milliseconds, so burning `budget` CPU seconds inside one call is a hang of the code under test
            signal.setitimer(signal.ITIMER_VIRTUAL, budget)
            try:
                mod.run(M, case)
            except CaseTimeout as e:
                M.quiet = 0
                M.viol(f"{spec['prop']}/hang:{e.where}", f"call did not return within {budget:.0f} s of CPU time (outermost pendulum frame: {e.where})",
                       stack=e.stack)
                M.count("hangs")
                nhang += 1
                if nhang >= 3:
                    # every further hanging case costs the full budget: stop this shard with what it has (the
                    # violation decides; running into the shard's wall-clock limit would lose the witnesses)
                    M.notes.append("shard stopped after 3 hanging cases")
                    break
            except Exception as e:  # noqa: BLE001
                M.quiet = 0
                frames = traceback.extract_tb(e.__traceback__)
                lib = [f for f in frames if "/pendulum/" in f.filename and "/pvmon/" not in f.filename]
                if frames and lib and frames[-1] is lib[-1]:
                    # raised inside the library and not anticipated by the workload (which catches what the property allows):
                    # the call was supposed to return
                    where = f"{os.path.basename(lib[0].filename)}:{lib[0].name}"
                    M.viol(f"{spec['prop']}/library-raised-{type(e).__name__}@{where}", "the library raised where the workload expects a value",
                           exc=repr(e)[:160], stack=[f"{os.path.basename(f.filename)}:{f.name}:{f.lineno}" for f in lib[:6]])
                    M.count("library_raised")
                else:
                    M.count("harness_error")
                    if len(M.notes) < 5:
                        M.notes.append(f"harness error on {case!r}: {traceback.format_exc(limit=6)}")
            finally:
                signal.setitimer(signal.ITIMER_VIRTUAL, 0)
                if time.process_time() - seg["t"] > seg["max"]:
                    seg["max"], seg["case"] = time.process_time() - seg["t"], case
        M.rearm = None
        if seg["max"] > budget * 0.4:
            M.notes.append(f"longest CPU stretch without a progress mark: {seg['max']:.1f} s of {budget:.0f} s in case {str(seg['case'])[:120]}")
        M.current = None
        if hasattr(mod, "finish"):
            mod.finish(M)
        M.count("cases", n)
        res = M.result()
        res["status"] = "ok"
    except Exception:
        res = M.result()
        res["status"] = "crash"
        res["notes"].append(traceback.format_exc(limit=8))
    res["wall_s"] = round(time.time() - t0, 3)
    out = spec["out"]
    with open(out + ".classes", "wb") as f:
        array.array("q", sorted(M.classes)).tofile(f)
    with open(out + ".tmp", "w") as f:
        json.dump(res, f)
    os.replace(out + ".tmp", out)


def _run_suite(spec):
    """the repository's own suite with this property's contracts attached (realistic call sequences);
    also the transparency gate: the stable pass set of BASELINE.json must be reproduced exactly"""
    import xml.etree.ElementTree as ET

    import pytest

    from pvmon import common

    os.chdir(common.REPO)
    xml = spec["out"] + ".junit.xml"
    rc = int(pytest.main(["-q", "--no-header", "-p", "no:cacheprovider", "--tb=no", f"--junitxml={xml}", os.path.join(common.REPO, "tests")]))
    lost = -1
    try:
        base = set(json.load(open("/root/.vp/BASELINE.json"))["stable_pass"])
        passed = set()
        for tc in ET.parse(xml).getroot().iter("testcase"):
            if not any(c.tag in ("failure", "error", "skipped") for c in tc):
                passed.add(f"{tc.get('classname')}::{tc.get('name')}")
        lost = len(base - passed)
        spec["_suite"] = {"passed": len(passed), "lost": sorted(base - passed)[:10]}
    except Exception as e:  # noqa: BLE001
        spec["_suite"] = {"error": repr(e)}
    finally:
        try:
            os.remove(xml)
        except OSError:
            pass
    return rc, lost


if __name__ == "__main__":
    main()
