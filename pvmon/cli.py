"""Driver: ./check <Cxx> <quick|thorough> | ./check replay <file> | ./check setup

Builds the extension from the working tree, runs the property's shards (one
subprocess each, never multiprocessing.Pool), joins the logs, applies the
known-findings file, writes evidence and replays, prints the verdict.
exit 0 held / 1 violation / 2 inconclusive.
"""
from __future__ import annotations

import array
import concurrent.futures as cf
import hashlib
import importlib
import json
import os
import re
import shutil
import subprocess
import sys
import time

from pvmon import common

NCPU = 16


def log(*a):
    print(*a, flush=True)


# ---------------------------------------------------------------- build
def build(kind):
    """cargo build of /repo/rust -> path of the cdylib; kind rel|ovf"""
    tag = hashlib.sha1(os.path.realpath(common.REPO).encode()).hexdigest()[:8]
    target = os.path.join(common.CACHE, "cargo", f"{kind}-{tag}")
    os.makedirs(target, exist_ok=True)
    env = dict(os.environ, PYO3_PYTHON=common.PY, CARGO_NET_OFFLINE="true", RUST_BACKTRACE="0")
    if kind == "ovf":
        env["CARGO_PROFILE_RELEASE_OVERFLOW_CHECKS"] = "true"
        env["CARGO_PROFILE_RELEASE_DEBUG_ASSERTIONS"] = "true"
        env["CARGO_PROFILE_RELEASE_LTO"] = "off"
        env["CARGO_PROFILE_RELEASE_CODEGEN_UNITS"] = "16"
    cmd = ["cargo", "build", "--release", "--offline", "--locked", "--features", "extension-module",
           "--manifest-path", os.path.join(common.REPO, "rust", "Cargo.toml"), "--target-dir", target]
    p = subprocess.run(cmd, env=env, stdout=subprocess.PIPE, stderr=subprocess.STDOUT, text=True)
    so = os.path.join(target, "release", "lib_pendulum.so")
    if p.returncode != 0 or not os.path.isfile(so):
        log(p.stdout[-3000:])
        return None
    return so


# ---------------------------------------------------------------- shards
def run_shard(spec, timeout):
    env = dict(os.environ, PYTHONHASHSEED="0", TZ="UTC", RUST_BACKTRACE="0",
               PYTHONPATH=common.VERIF, PYTHONDONTWRITEBYTECODE="1")
    env.pop("PENDULUM_EXTENSIONS", None)
    t0 = time.time()
    try:
        p = subprocess.run([common.PY, "-m", "pvmon.worker", json.dumps(spec)], env=env, cwd=common.VERIF,
                           stdout=subprocess.PIPE, stderr=subprocess.STDOUT, text=True, timeout=timeout)
        rc, outp = p.returncode, p.stdout
    except subprocess.TimeoutExpired as e:
        rc, outp = "timeout", (e.stdout or b"").decode("utf8", "replace") if isinstance(e.stdout, bytes) else (e.stdout or "")
    res = None
    if os.path.isfile(spec["out"]):
        with open(spec["out"]) as f:
            res = json.load(f)
    return {"spec": spec, "rc": rc, "out": outp[-4000:] if outp else "", "res": res, "wall": time.time() - t0}


def load_findings():
    p = os.path.join(common.VERIF, "KNOWN_FINDINGS.json")
    if not os.path.isfile(p):
        return []
    with open(p) as f:
        return json.load(f).get("findings", [])


def safe(s):
    return re.sub(r"[^A-Za-z0-9_.-]+", "_", s)[:80]


def check(prop, tier, replay_case=None, replay_config=None):
    t0 = time.time()
    seed = int(os.environ.get("VERIF_SEED", "0") or 0)
    mod = importlib.import_module("pvmon.props." + prop.lower())
    plan = mod.PLAN[tier]
    configs = plan["configs"]
    outdir = os.path.join(common.OUT, prop, tier)
    shutil.rmtree(outdir, ignore_errors=True)
    os.makedirs(outdir, exist_ok=True)
    evp = os.path.join(common.EVIDENCE, f"{prop}.json")
    if replay_case is None and os.path.exists(evp):
        os.remove(evp)

    # builds from the working tree
    so = {}
    need = {"rel"} | ({"ovf"} if "ovf" in configs else set())
    with cf.ThreadPoolExecutor(2) as ex:
        for kind, path in zip(sorted(need), ex.map(build, sorted(need))):
            so[kind] = path
    if any(v is None for v in so.values()):
        log(f"INCONCLUSIVE property={prop} reason=build-failed")
        return 2
    t_build = time.time() - t0

    specs = []
    if replay_case is not None:
        cfgs = [replay_config] if replay_config else configs
        for c in cfgs:
            specs.append({"prop": prop, "tier": tier, "seed": seed, "shard": 0, "nshards": 1, "config": c,
                          "so": so["ovf" if c == "ovf" else "rel"], "replay": replay_case,
                          "out": os.path.join(outdir, f"replay-{c}.json")})
    else:
        for c in configs:
            n = plan.get("nshards_" + c, plan["nshards"])
            for i in range(n):
                specs.append({"prop": prop, "tier": tier, "seed": seed, "shard": i, "nshards": n, "config": c,
                              "so": so["ovf" if c == "ovf" else "rel"],
                              "out": os.path.join(outdir, f"{c}-{i:03d}.json")})
                if plan.get("decimal_prec"):
                    # precision of the process-wide decimal context of the shard (decimal.getcontext().prec)
                    specs[-1]["decimal_prec"] = plan["decimal_prec"][i % len(plan["decimal_prec"])]
                if plan.get("week_start"):
                    # pendulum's own process-wide week configuration of the shard (week_starts_at / week_ends_at)
                    specs[-1]["week_start"] = plan["week_start"][i % len(plan["week_start"])]
                if plan.get("calendar_first"):
                    # stdlib process-wide setting calendar.setfirstweekday() of the shard (0 = Monday ... 6 = Sunday)
                    specs[-1]["calendar_first"] = plan["calendar_first"][i % len(plan["calendar_first"])]
                if plan.get("tz"):
                    # process-local zone of the shard (TZ + tzset): naive values are resolved by the platform in it
                    specs[-1]["tz"] = plan["tz"][i % len(plan["tz"])]
        for c in plan.get("suite", []):
            specs.append({"prop": prop, "tier": tier, "seed": seed, "shard": 0, "nshards": 1, "config": c,
                          "so": so["rel"], "suite": True, "out": os.path.join(outdir, f"suite-{c}.json")})
    timeout = plan.get("timeout", 600)
    with cf.ThreadPoolExecutor(NCPU) as ex:
        results = list(ex.map(lambda s: run_shard(s, timeout), specs))

    # ------------------------------------------------------------ join
    inconclusive = []
    evals, counters = {}, {}
    per_config = {}
    classes = set()
    viols = {}
    samples = []
    digests = {}
    unattached, attached, notes = set(), set(), []
    for r in results:
        res, spec = r["res"], r["spec"]
        name = os.path.basename(spec["out"])
        if r["rc"] == "timeout":
            inconclusive.append(f"watchdog:{name}")
            continue
        if res is None or r["rc"] != 0:
            # the process died (signal / abort inside the extension): witness for the shard
            inconclusive.append(f"worker-died:{name}:rc={r['rc']}")
            notes.append(r["out"][-1500:])
            continue
        if res["status"] != "ok":
            inconclusive.append(f"worker-crash:{name}")
            notes.extend(res["notes"][-2:])
            continue
        for k, v in res["evals"].items():
            evals[k] = evals.get(k, 0) + v
            pc = per_config.setdefault(spec["config"], {})
            pc[k] = pc.get(k, 0) + v
        for k, v in res["counters"].items():
            counters[k] = counters.get(k, 0) + v
        a = array.array("q")
        with open(spec["out"] + ".classes", "rb") as f:
            a.frombytes(f.read())
        classes.update(a)
        os.remove(spec["out"] + ".classes")
        for v in res["violations"]:
            w = viols.setdefault(v["sig"], {"sig": v["sig"], "count": 0, "witnesses": []})
            w["count"] += v["count"]
            w["witnesses"].extend(v["witnesses"][: max(0, 3 - len(w["witnesses"]))])
        if len(samples) < 8:
            samples.extend(res["samples"][:2])
        if res["digests"]:
            digests.setdefault((spec["config"]), {}).update(res["digests"])
        unattached.update(res["unattached"]); attached.update(res["attached"])
        notes.extend(res["notes"])
        if res["counters"].get("harness_error") or res["counters"].get("oracle_error"):
            inconclusive.append(f"harness-error:{name}")
        if spec.get("suite") and res["counters"].get("suite_stable_pass_lost", 0) != 0:
            # the monitors changed the behaviour of the program under test (or the suite could not be read)
            inconclusive.append(f"monitors-not-transparent:{name}:lost={res['counters'].get('suite_stable_pass_lost')}")

    # backend agreement by log join
    if hasattr(mod, "join_digests") and len(digests) > 1 and replay_case is None:
        for sig, what, detail, case, n in mod.join_digests(digests):
            w = viols.setdefault(sig, {"sig": sig, "count": 0, "witnesses": []})
            w["count"] += n
            if len(w["witnesses"]) < 3:
                w["witnesses"].append({"what": what, "case": case, "detail": detail, "config": "join"})
        evals["backend_join"] = evals.get("backend_join", 0) + min(len(d) for d in digests.values())

    # floors: a deciding monitor that observed (almost) nothing decides nothing
    if replay_case is None:
        for name, floor in mod.FLOORS[tier].items():
            if evals.get(name, 0) < floor:
                inconclusive.append(f"floor:{name}:{evals.get(name, 0)}<{floor}")
        for lab in getattr(mod, "REQUIRED_HOOKS", []):
            if lab in unattached:
                inconclusive.append(f"hook-unattached:{lab}")

    findings = [f for f in load_findings() if f["property"] == prop]
    open_sigs = {}
    for f in findings:
        if f.get("status") == "open":
            for sg in ([f["signature"]] if isinstance(f["signature"], str) else f["signature"]):
                open_sigs[sg] = f
    import fnmatch

    def _match(sig):
        if sig in open_sigs:
            return sig
        for pat in open_sigs:
            if any(ch in pat for ch in "*?[") and fnmatch.fnmatchcase(sig, pat):
                return pat
        return None

    new, known = [], []
    for sig, v in sorted(viols.items()):
        pat = _match(sig)
        if pat is not None:
            v["pattern"] = pat
            known.append(v)
        else:
            new.append(v)

    rep_dir = os.path.join(common.OUT, "replays", prop)
    if replay_case is None:
        shutil.rmtree(rep_dir, ignore_errors=True)
    os.makedirs(rep_dir, exist_ok=True)
    if replay_case is None:
        for f in findings:
            if f.get("status") != "open":
                continue
            sgs = [f["signature"]] if isinstance(f["signature"], str) else f["signature"]
            n = sum(v["count"] for v in known if v.get("pattern", v["sig"]) in sgs)
            log(f"KNOWN-FINDING: property={prop} {f['what']} [id={f['id']} observed={n}]")
    for v in new:
        w = v["witnesses"][0]
        path = os.path.join(rep_dir, f"{safe(v['sig'])}.json")
        with open(path, "w") as f:
            json.dump({"property": prop, "signature": v["sig"], "config": w["config"], "tier": tier, "seed": seed,
                       "what": w["what"], "case": w["case"], "detail": w["detail"], "count": v["count"]}, f, indent=1)
        log(f"VIOLATION property={prop} replay={path}")
        log(f"  signature={v['sig']} count={v['count']} what={w['what']}")
        log(f"  case={json.dumps(w['case'])[:600]}")
        log(f"  detail={json.dumps(w['detail'])[:900]}")

    total = sum(evals.get(k, 0) for k in mod.DECIDING) if hasattr(mod, "DECIDING") else sum(evals.values())
    wall = time.time() - t0
    if replay_case is None:
        ev = {
            "property_id": prop, "tier": tier, "seed": seed, "level": "exploration",
            "coverage": {
                "evaluations": int(total),
                "distinct_nontrivial": len(classes),
                "rule": mod.RULE,
                "samples": samples[:8],
                "exhaustive": bool(getattr(mod, "EXHAUSTIVE", {}).get(tier, False)),
                "monitor_evaluations": evals,
                "per_configuration": per_config,
                "counters": counters,
                "hooks_attached": sorted(attached),
                "hooks_unattached": sorted(unattached),
                "shards": len(specs),
                "configs": configs,
                "known_findings_observed": {v["sig"]: v["count"] for v in known},
                "new_violation_signatures": {v["sig"]: v["count"] for v in new},
                "inconclusive_reasons": inconclusive,
                "build_s": round(t_build, 2),
            },
            "assumptions": mod.ASSUMPTIONS,
            "wall_s": round(wall, 2),
            "violations": sum(v["count"] for v in new),
        }
        os.makedirs(os.path.dirname(evp), exist_ok=True)
        with open(evp, "w") as f:
            json.dump(ev, f, indent=1, sort_keys=True)
            f.write("\n")
    log(f"{prop} {tier}: evaluations={total} distinct_nontrivial={len(classes)} shards={len(specs)} "
        f"known={len(known)} new={len(new)} wall={wall:.1f}s (build {t_build:.1f}s)")
    for k in sorted(evals):
        log(f"   monitor {k}: {evals[k]}")
    for n in sorted({n_ for n_ in notes if n_.startswith("longest CPU stretch")})[-3:]:
        log("   watchdog margin:", n[:260])
    if new:
        return 1
    if inconclusive:
        log(f"INCONCLUSIVE property={prop} reasons={inconclusive[:8]}")
        for n in notes[:4]:
            log("  note:", n[:1500])
        return 2
    log(f"HELD property={prop} (on what was observed)")
    return 0


def setup():
    ok = all(build(k) for k in ("rel", "ovf"))
    subprocess.run([common.PY, "-m", "compileall", "-q", os.path.join(common.VERIF, "pvmon")],
                   env=dict(os.environ, PYTHONDONTWRITEBYTECODE=""))
    return 0 if ok else 1


def main(argv):
    if len(argv) >= 1 and argv[0] == "setup":
        return setup()
    if len(argv) >= 2 and argv[0] == "replay":
        with open(argv[1]) as f:
            rp = json.load(f)
        cfg = rp.get("config")
        rc = check(rp["property"], rp.get("tier", "quick"), replay_case=rp["case"],
                   replay_config=None if cfg in (None, "join") else cfg)
        return rc
    if len(argv) == 2 and re.fullmatch(r"C\d\d", argv[0]) and argv[1] in ("quick", "thorough"):
        return check(argv[0], argv[1])
    log("usage: check <Cxx> <quick|thorough> | check replay <file> | check setup")
    return 64


if __name__ == "__main__":
    sys.exit(main(sys.argv[1:]))
