"""C06 — interval components are canonical and rebuild the end from the start.

Contracts: Interval.__init__ (component ranges, rebuild with the independent calendar
model, in_months), both precise_diff implementations called directly on the same native
arguments (field-by-field backend equality) and the binding Interval uses.
Boundary: a + (b - a) == b, a.add(**components) == b, reversed interval negated,
different-zone pairs decomposed in UTC.
"""
from __future__ import annotations

import datetime as dt
import sys
import zoneinfo

from pvmon import gen
from pvmon.common import DAY_US, MAX_US, MIN_US, US, fields, inst, off_us, td_us, us_to_fields, wall_us
from pvmon.oracle import cal, judge, tzdb

PLAN = {
    "quick": {"configs": ["ext1", "ext0"], "nshards": 10, "nshards_ext0": 6, "timeout": 900},
    "thorough": {"configs": ["ext1", "ext0"], "nshards": 16, "timeout": 3400, "suite": ["ext1"]},
}
DECIDING = ["native_endpoint", "init.components", "backend_eq", "rebuild.boundary", "reversed", "utc_decomposition", "pd.contract"]
FLOORS = {"quick": {"init.components": 100000, "backend_eq": 100000, "rebuild.boundary": 50000, "reversed": 50000,
                    "utc_decomposition": 3000, "pd.contract": 100000},
          "thorough": {"init.components": 2 * 10**6, "backend_eq": 2 * 10**6, "rebuild.boundary": 10**6, "reversed": 10**6,
                       "utc_decomposition": 30000, "pd.contract": 2 * 10**6}}
REQUIRED_HOOKS = ["Interval.__init__"]
EXHAUSTIVE = {"quick": False, "thorough": False}
TECHNIQUE = "runtime contracts on Interval construction and on both precise_diff implementations: range + rebuild (independent calendar model) + negation symmetry + in-process backend equality; operand-class independence (native / pendulum endpoints)"
LEVEL_TEXT = ("every Interval built by the workloads is judged for canonical component ranges and for rebuilding its end from its "
              "start with an independent calendar model; both precise_diff implementations are called on identical native "
              "arguments and compared field by field; enumerated month/day/leap/borrow shapes plus random pairs; held on what was observed")
RULE = ("enumerated: start date x end date within 800 days for start years {2000,2019,2020,2100} x time-of-day borrow {none, end earlier} "
        "(thorough: all; quick: seeded 1/16 stride), as Date/naive/UTC/fixed/same-zone pairs; random pairs over years 1..9999 x zones "
        "filtered to the statement's domain (same offset at both ends, end not ambiguous); different-zone pairs; distinct = (month-length "
        "arm, borrow, clamp, leap pattern, kind, month pair, day pair class); non-trivial = day borrow happened (end day-of-month < start's)")
ASSUMPTIONS = ["trusted base: CPython datetime/calendar; rebuild oracle = independent month-shift+clamp model (cross-checked vs relativedelta in C04)",
               "the maximal-months decomposition is not required (Jan 31 -> Feb 28 may be 1 month or 28 days)",
               "pairs outside the statement's domain (net offset change, ambiguous end) are only checked for backend equality"]

NAMES = ("years", "months", "weeks", "days", "hours", "minutes", "seconds", "microseconds")


def comps(iv):
    return [iv.years, iv.months, iv.weeks, iv.remaining_days, iv.hours, iv.minutes, iv.remaining_seconds, iv.microseconds]


def in_domain(a, b):
    """the statement's domain for the rebuild clause; -> kind or None"""
    if not isinstance(a, dt.datetime):
        return "date" if not isinstance(b, dt.datetime) else None
    if a.tzinfo is None or b.tzinfo is None:
        return "naive" if a.tzinfo is None and b.tzinfo is None else None
    ka, kb = judge.zkind(a), judge.zkind(b)
    if ka != kb or ka[0] == "foreign":
        return None
    if off_us(a) != off_us(b):
        return None
    if ka[0] == "fixed":
        return "fixed"
    if not (judge.valid_local(a) and judge.valid_local(b)):
        return None
    cls, cands, gap = tzdb.Z.get(ka[1]).classify_wall(wall_us(b))
    if cls != "once":
        return None
    # a may be ambiguous only if it is unambiguous which pass it is: same offset as b is required above
    return "zone"


def range_problems(c, sign):
    bad = []
    lim = (None, 11, None, 6, 23, 59, 59, 999999)
    for n, v, l in zip(NAMES, c, lim):
        if v * sign < 0:
            bad.append("sign-" + n)
        if l is not None and abs(v) > l:
            bad.append("range-" + n)
    if abs(c[2]) * 7 + abs(c[3]) > 30:
        bad.append("range-days")
    return bad


def arm_of(a, b):
    """which arm of the month-length branch a correct implementation must consider (a <= b, wall fields)"""
    fa, fb = fields(a), fields(b)
    borrow = 1 if len(fa) > 3 and fb[3:] < fa[3:] else 0
    dd = fb[2] - fa[2] - borrow
    if dd >= 0:
        return "nonneg", borrow
    y, m = fb[0], fb[1]
    py, pm = (y - 1, 12) if m == 1 else (y, m - 1)
    diff = cal.dim(y, m) - cal.dim(py, pm)
    return ("less" if dd < diff else "equal" if dd == diff else "greater"), borrow


def setup(M):
    import pendulum
    import pendulum._helpers as PH
    from pendulum.interval import Interval

    M.pendulum = pendulum
    M.py_pd = PH.precise_diff
    try:
        import pendulum._pendulum as EXT

        M.rs_pd = EXT.precise_diff
    except ImportError:
        M.rs_pd = None

    def init_post(ret, a, k, snap):
        iv = a[0]
        s, e = iv.start, iv.end
        try:
            c = comps(iv)
        except Exception as ex:  # noqa: BLE001
            M.check("init.components", False, f"C06/components-raise-{type(ex).__name__}", "component accessor raised",
                    start=repr(s), end=repr(e))
            return
        M.check("init.components", iv.in_months() == 12 * c[0] + c[1], "C06/in_months", "in_months != 12*years+months",
                start=repr(s), end=repr(e), comps=c)
        # orientation by instants / wall
        if isinstance(s, dt.datetime) and s.tzinfo is not None and s.utcoffset() is not None:
            fwd = inst(s) <= inst(e)
        else:
            fwd = wall_us(s) <= wall_us(e)
        lo, hi = (s, e) if fwd else (e, s)
        dom = in_domain(lo, hi)
        if dom is None:
            M.count("init.out_of_domain")
            return
        sign = 1 if fwd else -1
        bad = range_problems(c, sign)
        if not bad:
            w = cal.add_wall(fields(lo), *[sign * v for v in c])
            if w != wall_us(hi):
                bad.append("rebuild")
        arm, borrow = arm_of(lo, hi)
        big = abs(td_us(iv)) >= 2**33 * US
        sig = "C06/" + "+".join(bad) + f":arm-{arm}" + (":span>=2^33s" if big else "")
        M.check("init.components", not bad, sig, "interval components are not canonical or do not rebuild the end",
                start=judge.desc(s) if isinstance(s, dt.datetime) else repr(s),
                end=judge.desc(e) if isinstance(e, dt.datetime) else repr(e), comps=c, domain=dom, arm=arm, borrow=borrow)

    M.contract(Interval, "__init__", post=init_post, label="Interval.__init__")

    # precise_diff: sanity contract on every call (both implementations, all binding sites)
    def pd_post(ret, a, k, snap):
        d1, d2 = a[0], a[1]
        t = (ret.years, ret.months, ret.days, ret.hours, ret.minutes, ret.seconds, ret.microseconds)
        pos = all(v >= 0 for v in t)
        neg = all(v <= 0 for v in t)
        ok = (pos or neg) and abs(ret.months) <= 11 and abs(ret.hours) <= 23 and abs(ret.minutes) <= 59 and \
            abs(ret.seconds) <= 59 and abs(ret.microseconds) <= 999999 and abs(ret.days) <= 30
        same_off = not isinstance(d1, dt.datetime) or d1.tzinfo is None or (
            d1.utcoffset() == d2.utcoffset() and d1.tzinfo is d2.tzinfo)
        M.check("pd.contract", ok or not same_off, "C06/precise_diff-range", "precise_diff components out of canonical range",
                d1=repr(d1), d2=repr(d2), got=t)

    for modname, label in (("pendulum._helpers", "py"), ("pendulum._pendulum", "rs"), ("pendulum.helpers", "helpers"),
                           ("pendulum.interval", "interval")):
        mod = sys.modules.get(modname)
        if mod is not None and hasattr(mod, "precise_diff"):
            try:
                M.contract(mod, "precise_diff", post=pd_post, label=f"{label}.precise_diff")
            except (AttributeError, TypeError):
                M.unattached.append(f"{label}.precise_diff")


def backend_eq(M, n1, n2, tag):
    if M.rs_pd is None:
        return
    out = []
    for f in (M.py_pd, M.rs_pd):
        try:
            r = f(n1, n2)
            out.append((r.years, r.months, r.days, r.hours, r.minutes, r.seconds, r.microseconds, r.total_days))
        except Exception as e:  # noqa: BLE001
            out.append(("raise", type(e).__name__))
    if out[0] != out[1] and isinstance(n1, dt.datetime) and n1.tzinfo is not None and n1.tzinfo is n2.tzinfo and (
            (wall_us(n1) > wall_us(n2)) != (inst(n1) > inst(n2))):
        tag = "same-tzinfo-fold" + (":across-midnight" if n1.date() != n2.date() else "")
    M.check("backend_eq", out[0] == out[1], f"C06/backend-mismatch:{tag}", "compiled and pure-Python precise_diff differ",
            d1=repr(n1), d2=repr(n2), python=out[0], rust=out[1])


# ---------------------------------------------------------------- workload
KINDS = ("date", "naive", "utc", "fixed", "zone")
SAME_OFFSET_GROUPS = [["Europe/Paris", "Europe/Berlin", "Europe/Madrid", "Europe/Rome", "Europe/Warsaw"], ["America/New_York", "America/Toronto", "America/Detroit"],
                      ["Asia/Kolkata", "Asia/Colombo"], ["Asia/Tokyo", "Asia/Seoul"], ["Australia/Sydney", "Australia/Melbourne", "Australia/Hobart"],
                      ["America/Los_Angeles", "America/Vancouver", "America/Tijuana"], ["Pacific/Auckland", "Antarctica/McMurdo"],
                      ["Asia/Shanghai", "Asia/Singapore", "Australia/Perth", "Asia/Manila"], ["America/Sao_Paulo", "America/Argentina/Buenos_Aires"],
                      ["Asia/Kathmandu", "Asia/Kolkata"], ["Africa/Cairo", "Europe/Athens", "Europe/Helsinki"]]
TODS = ((12, 0, 0, 0), (0, 0, 0, 0), (23, 59, 59, 999999), (6, 30, 15, 250000))


def cases(M):
    r = gen.rng(M)
    thorough = M.tier == "thorough"
    stride = 1 if thorough else 16
    phase = r.randrange(stride)
    n = 0
    for y in (2000, 2019, 2020, 2100):
        o0 = dt.date(y, 1, 1).toordinal()
        ndays = 366 if cal.dim(y, 2) == 29 else 365
        for si in range(ndays):
            for de in range(0, 800):
                for borrow in (0, 1):
                    n += 1
                    if (n + phase) % stride or (n // stride) % M.nshards != M.shard:
                        continue
                    yield {"k": "enum", "so": o0 + si, "eo": o0 + si + de, "borrow": borrow, "kind": KINDS[(n // stride // M.nshards) % 5],
                           "t": (n // 7) % 4, "zn": gen.HOSTILE_ZONES[n % len(gen.HOSTILE_ZONES)]}
    names = gen.all_zones()
    for j in range(400000 if thorough else 40000):
        if j % M.nshards != M.shard:
            continue
        za = r.choice(names)
        ua = gen.random_instant(r) if j % 3 else gen.modern_instant(r)
        span = r.choice((r.randrange(0, 90 * DAY_US), r.randrange(0, 5000 * DAY_US), r.randrange(0, 3 * 10**6 * DAY_US), r.randrange(0, 86400 * US),
                         r.randrange(1, 1000), r.randrange(1, US), r.randrange(1, 120 * US)))      # incl. endpoints inside one second / one minute
        ub = ua + span
        if not gen.ok_instant(ub):
            continue
        yield {"k": "rand", "za": za, "zb": za if j % 4 else r.choice(names), "ua": ua, "ub": ub}
    # differently named zones that share a UTC offset, endpoints within |offset| of local midnight around month ends
    # (the UTC decomposition then falls on other calendar days/months than the wall-clock one)
    for j in range(60000 if thorough else 6000):
        if j % M.nshards != M.shard:
            continue
        grp = r.choice(SAME_OFFSET_GROUPS)
        za, zb = r.sample(grp, 2)
        y, mo = r.randrange(1995, 2035), r.randrange(1, 13)
        if j % 5 == 0:
            # centuries (leap by the 400 rule or not) and the days around the end of February
            y, mo = r.choice((2000, 2000, 2400, 1600, 2100, 1900, 2004)), r.choice((2, 2, 3))
        d1 = dt.date(y, mo, r.choice((1, 1, 2, cal.dim(y, mo), cal.dim(y, mo) - 1, 15)))
        d2 = d1 + dt.timedelta(days=r.choice((1, 27, 28, 29, 30, 31, 32, 59, 61, 90, 92, 365, 366)))
        if r.random() < 0.5:
            d2 = d2.replace(day=r.choice((1, cal.dim(d2.year, d2.month))))
        tod1, tod2 = r.randrange(0, 13 * 3600) * US, r.randrange(0, 13 * 3600) * US
        if j % 3 == 0:
            tod2 = tod1
        yield {"k": "sameoff", "za": za, "zb": zb, "w1": (d1.toordinal() - 719163) * DAY_US + tod1, "w2": (d2.toordinal() - 719163) * DAY_US + tod2}
    # transitions: pairs on the same side / across, first-pass/second-pass starts
    for zn in gen.shard_zones(M, names if thorough else gen.hostile(names) + r.sample(names, 60)):
        z = tzdb.Z.get(zn)
        for i, (t, ob, oa, _) in enumerate(z.trans):
            if not gen.ok_instant(t * US):
                continue
            g = abs(oa - ob)
            if oa < ob and g > 2:
                # both passes of the overlap, wall-clock order opposite to instant order
                x = r.randrange(1, g - 1)
                y = r.randrange(0, g - x)
                yield {"k": "rand", "za": zn, "zb": zn, "ua": (t - x) * US + r.randrange(US), "ub": (t + y) * US + r.randrange(US), "ti": i}
            for _ in range(2):
                ua = (t + r.choice((-g // 2, 0, g // 2, g, -3600, 3600, -86400 * 3))) * US + r.randrange(US)
                ub = ua + r.choice((r.randrange(0, 86400 * US), r.randrange(0, 40 * DAY_US), r.randrange(0, 800 * DAY_US)))
                if not (gen.ok_instant(ua, 3) and gen.ok_instant(ub, 3)):
                    continue
                yield {"k": "rand", "za": zn, "zb": zn, "ua": ua, "ub": ub, "ti": i}


def _pair(M, c):
    P = M.pendulum
    if c["k"] == "enum":
        sd, ed = dt.date.fromordinal(c["so"]), dt.date.fromordinal(c["eo"])
        ts = TODS[c["t"]]
        te = ts
        if c["borrow"]:
            te = (ts[0] - 5, ts[1], ts[2], ts[3]) if ts[0] >= 5 else (0, 0, 0, 0) if ts != (0, 0, 0, 0) else None
            if te is None:
                ts, te = (0, 0, 0, 1), (0, 0, 0, 0)
        if c["so"] == c["eo"] and te < ts:
            ts, te = te, ts
        kind = c["kind"]
        if kind == "date":
            return P.Date(sd.year, sd.month, sd.day), P.Date(ed.year, ed.month, ed.day), kind
        A = (sd.year, sd.month, sd.day) + ts
        B = (ed.year, ed.month, ed.day) + te
        if kind == "naive":
            return P.DateTime(*A), P.DateTime(*B), kind
        if kind == "utc":
            return P.DateTime(*A, tzinfo=P.UTC), P.DateTime(*B, tzinfo=P.UTC), kind
        if kind == "fixed":
            off = (c["so"] * 977) % 172799 - 86399
            if c["so"] % 3 == 0:
                off = off // 60 * 60          # whole minutes (what parsing and pickling produce)
            tz = P.tz.timezone.FixedTimezone(off)
            # a third of the pairs carry one (equal) timezone object per endpoint - parsed, unpickled or separately built values
            tz2 = P.tz.timezone.FixedTimezone(off) if c["so"] % 3 != 1 else tz
            return P.DateTime(*A, tzinfo=tz), P.DateTime(*B, tzinfo=tz2), kind
        zn = c["zn"]
        out = []
        for F in (A, B):
            from pvmon.props import c02

            exp, cls = c02.expect(("iana", zn), wall_us(dt.datetime(*F)), 1, False)
            if exp[0] != "value":
                return None
            out.append(gen.mk(zn, exp[1]))
        return out[0], out[1], kind
    if c["k"] == "sameoff":
        from pvmon.props import c02

        out = []
        for zn, w in ((c["za"], c["w1"]), (c["zb"], c["w2"])):
            exp, cls = c02.expect(("iana", zn), w, 1, False)
            if exp[0] != "value":
                return None
            out.append(gen.mk(zn, exp[1]))
        if inst(out[0]) > inst(out[1]):
            out.reverse()
        return out[0], out[1], "diffzone"
    a = gen.mk(c["za"], c["ua"])
    b = gen.mk(c["zb"], c["ub"])
    return a, b, "zone" if c["za"] == c["zb"] else "diffzone"


def _native(x, fold=False):
    if isinstance(x, dt.datetime):
        return dt.datetime(*fields(x), tzinfo=x.tzinfo, **({"fold": x.fold} if fold else {}))
    return dt.date(x.year, x.month, x.day)


def _eq(x, y):
    if isinstance(x, dt.datetime):
        return fields(x) == fields(y) and off_us(x) == off_us(y) and type(x) is type(y)
    return fields(x) == fields(y) and type(x) is type(y)


def run(M, c):
    P = M.pendulum
    pr = _pair(M, c)
    if pr is None:
        return
    a, b, kind = pr
    M.sample(c)
    # in-process backend equality on identical native arguments (both orders, with and without fold)
    n1, n2 = _native(a), _native(b)
    backend_eq(M, n1, n2, kind)
    backend_eq(M, n2, n1, kind + ":rev")
    if kind in ("zone", "diffzone"):
        backend_eq(M, _native(a, True), _native(b, True), kind + ":fold")
    if kind in ("utc", "fixed", "naive", "date"):
        # the helpers handed subclasses of date/datetime (where wall-clock and elapsed arithmetic cannot differ): same
        # components whatever the operand classes
        backend_eq(M, a, b, kind + ":pendulum-operands")
        backend_eq(M, n1, b, kind + ":native+pendulum")
        backend_eq(M, b, n1, kind + ":pendulum+native:rev")
    hist = isinstance(a, dt.datetime) and a.tzinfo is not None and (c.get("ua", 0) + c.get("ub", 0)) % 4 == 0
    if hist and (c.get("ua", 0) // 4) % 2 == 0:
        _same_instants_elsewhere(M, a, b)      # history: the same two instants decomposed in another zone first ...
    try:
        iv = b - a           # Interval.__init__ contract judges ranges + model rebuild
        rv = a - b
    except OverflowError as e:
        M.check("range", not (3 <= a.year <= 9996 and 3 <= b.year <= 9996), "C06/subtraction-raised-OverflowError", "b - a raised far from the ends of the range",
                a=_dsc(a), b=_dsc(b), exc=repr(e)[:100])
        return
    if isinstance(a, dt.datetime) and a.tzinfo is not None:
        # an endpoint given as a native (aware) datetime denotes the same interval
        try:
            nb = dt.datetime(*fields(b), tzinfo=b.tzinfo, fold=b.fold)
            na = dt.datetime(*fields(a), tzinfo=a.tzinfo, fold=a.fold)
            alt = {"diff(native)": a.diff(nb, False), "interval(a, native)": P.interval(a, nb), "interval(native, b)": P.interval(na, b)}
            for nm, v in alt.items():
                M.check("native_endpoint", comps(v) == comps(iv) and td_us(v) == td_us(iv), f"C06/native-endpoint:{nm}",
                        "an interval with a native datetime endpoint reports other components than with the pendulum value", a=_dsc(a), b=_dsc(b),
                        pendulum=comps(iv), native=comps(v))
        except (OverflowError, ValueError):
            pass
    if hist and (c.get("ua", 0) // 4) % 2 == 1:
        _same_instants_elsewhere(M, a, b)      # ... or afterwards (each interval is judged on its own by the contract)
    dom = in_domain(a, b) if kind != "diffzone" else None
    arm, borrow = arm_of(a, b) if dom else ("-", 0)
    if dom and arm != "nonneg":
        fa, fb = fields(a), fields(b)
        M.cls(arm, borrow, fa[2] > cal.dim(fb[0], fb[1]), cal.dim(fa[0], fa[1]), cal.dim(fb[0], fb[1]), kind, fa[2], fb[2])
    ci = comps(iv)
    if dom:
        try:
            r1 = a + iv
            r2 = a.add(**{n: v for n, v in zip(NAMES, ci) if isinstance(a, dt.datetime) or n in NAMES[:4]})
            ok = _eq(r1, b) and _eq(r2, b)
        except (OverflowError, ValueError):
            ok = True
            r1 = r2 = None
        big = abs(td_us(iv)) >= 2**33 * US
        M.check("rebuild.boundary", ok, f"C06/rebuild-boundary:arm-{arm}" + (":span>=2^33s" if big else ""),
                "a + (b - a) or a.add(**components) is not b", a=_dsc(a), b=_dsc(b), comps=ci, plus=_dsc(r1), add=_dsc(r2))
        cr = comps(rv)
        M.check("reversed", cr == [-v for v in ci], f"C06/reversed-not-negated:arm-{arm}", "reversed interval is not the negation",
                a=_dsc(a), b=_dsc(b), fwd=ci, rev=cr)
    if kind == "diffzone" and judge.valid_local(a) and judge.valid_local(b):
        # decomposed as the same two instants expressed in UTC
        ua, ub = inst(a), inst(b)
        bad = range_problems(ci, 1)
        w = cal.add_wall(us_to_fields(ua), *ci)
        if w != ub:
            bad.append("rebuild-utc")
        arm2 = arm_of(dt.datetime(*us_to_fields(ua)), dt.datetime(*us_to_fields(ub)))[0]
        M.cls("diffzone", arm2, c["za"], c["zb"], off_us(a) == off_us(b))
        big = ":span>=2^33s" if abs(ub - ua) >= 2**33 * US else ""
        M.check("utc_decomposition", not bad, f"C06/utc-decomposition:{'+'.join(bad)}:arm-{arm2}{big}",
                "different-zone endpoints are not decomposed as their UTC instants", a=_dsc(a), b=_dsc(b), comps=ci)


def _same_instants_elsewhere(M, a, b):
    """the two instants of (a, b) expressed in UTC and in far fixed offsets (their calendar dates differ from the local ones):
    equal as datetimes, different as wall clocks - built and decomposed in the same process"""
    P = M.pendulum
    M.quiet += 1
    try:
        twins = []
        for tz in (P.UTC, P.tz.timezone.FixedTimezone(14 * 3600), P.tz.timezone.FixedTimezone(-11 * 3600)):
            try:
                twins.append((a.in_tz(tz), b.in_tz(tz)))
            except (OverflowError, ValueError):
                pass
    finally:
        M.quiet -= 1
    for a2, b2 in twins:
        try:
            b2 - a2          # contract judges
            a2 - b2
        except OverflowError:
            pass


def _dsc(x):
    if x is None:
        return None
    return judge.desc(x) if isinstance(x, dt.datetime) else repr(x)
