"""C02 — wall-clock construction is normalised by the documented DST rules.

Oracle: tzdb.classify_wall enumerates the UTC instants that render to the wall time
(once / twice / gap / exotic) and yields the expected value or exception for
(fold, raise_on_unknown_times).  Contracts on Timezone.convert (naive branch),
FixedTimezone.convert, Timezone.datetime, DateTime.create, pendulum.datetime,
DateTime.set, DateTime.replace; on()/at()/parse(tz=)/local() judged at the workload
boundary with the same oracle.
"""
from __future__ import annotations

import datetime as dt

from pvmon import gen
from pvmon.common import DAY_US, MAX_US, MIN_US, US, fields, inst, off_us, us_to_fields, wall_us
from pvmon.oracle import judge, tzdb

PLAN = {
    "quick": {"configs": ["ext1", "ext0"], "nshards": 12, "nshards_ext0": 4, "timeout": 900},
    "thorough": {"configs": ["ext1", "ext0"], "nshards": 16, "timeout": 3400, "suite": ["ext1"]},
}
DECIDING = ["convert", "create", "datetime", "tz.datetime", "set", "replace", "boundary"]
FLOORS = {"quick": {"convert": 100000, "create": 100000, "datetime": 50000, "tz.datetime": 2000, "set": 5000,
                    "replace": 2000, "boundary": 5000},
          "thorough": {"convert": 10**6, "create": 10**6, "datetime": 500000, "tz.datetime": 20000, "set": 50000,
                       "replace": 20000, "boundary": 50000}}
REQUIRED_HOOKS = ["Timezone.convert", "FixedTimezone.convert", "DateTime.create", "pendulum.datetime", "DateTime.set",
                  "DateTime.replace", "Timezone.datetime"]
TECHNIQUE = "runtime contracts on every wall-clock construction path with a wall-time classification oracle enumerated from the tz database; workloads include partial set() calls reaching gaps with second-granular edges"
LEVEL_TEXT = ("every observed construction from wall fields is judged against the set of UTC instants that render to that "
              "wall time in an independently parsed tz database; all gaps and overlaps of all zones x fold x raise flag are "
              "enumerated; held on what was observed")
RULE = ("every gap/overlap of every zone x wall probes {start-1us,start,start+1us,middle,end-1us,end} x fold{0,1} x raise{F,T} "
        "x construction path {datetime, create, convert(native), convert(pendulum), tz.datetime, set, at, on, replace, "
        "parse(tz=), local()}, plus seeded ordinary wall times and fixed offsets; distinct = (zone, transition index, "
        "probe, fold, raise, path); non-trivial = wall time inside a gap or overlap")
ASSUMPTIONS = ["trusted base: CPython datetime/zoneinfo and the tz files",
               "exotic geometry (>=3 candidates, or a gap that also has a candidate) only checked for validity of the result",
               "set()/on()/at()/replace() use the instance's fold as the property states"]

W_PROBES = ("start-1us", "start", "start+1us", "middle", "end-1us", "end")
PATHS = ("create", "convert", "convert_pd", "tzdatetime", "set", "at", "on", "replace", "replace_fold", "parse", "local",
         "instance_naive", "set_sub", "set_time", "set_tz")
ZONES = set()


def expect(zone, w, fold, rflag):
    """zone: ('iana', key) | ('fixed', off) ; -> ('value', inst, wall) | ('raise', name) | ('exotic',)"""
    if zone[0] == "fixed":
        return ("value", w - zone[1] * US, w), "fixed"
    z = tzdb.Z.get(zone[1])
    cls, cands, gap = z.classify_wall(w)
    if cls == "once":
        return ("value", cands[0], w), cls
    if cls == "twice":
        if rflag:
            return ("raise", "AmbiguousTime"), cls
        return ("value", cands[1 if fold else 0], w), cls
    if cls == "gap":
        if rflag:
            return ("raise", "NonExistingTime"), cls
        t, ob, oa = gap
        g = (oa - ob) * US
        if fold:
            return ("value", w + g - oa * US, w + g), cls
        return ("value", w - g - ob * US, w - g), cls
    return ("exotic",), cls


def judge_result(M, name, zone, w, fold, rflag, ret=None, exc=None, sigp=""):
    if not (MIN_US + 3 * DAY_US < w < MAX_US - 3 * DAY_US):
        return
    exp, cls = expect(zone, w, fold, rflag)
    bad = []
    if exp[0] == "exotic":
        M.count("exotic")
        if ret is not None and not judge.valid_local(ret):
            bad.append("invalid-local")
    elif exp[0] == "raise":
        if exc is None:
            bad.append("no-raise")
        elif type(exc).__name__ != exp[1]:
            bad.append("wrong-exception-" + type(exc).__name__)
    else:
        if exc is not None:
            bad.append("raised-" + type(exc).__name__)
        else:
            if wall_us(ret) != exp[2]:
                bad.append("wall")
            if ret.tzinfo is None or ret.utcoffset() is None:
                bad.append("naive")
            elif inst(ret) != exp[1]:
                bad.append("instant")
            if not bad and judge.zkind(ret)[0] in ("iana", "fixed") and not judge.valid_local(ret):
                bad.append("invalid-local")
    M.check(name, not bad, f"C02/{sigp or name}:{cls}:fold{int(bool(fold))}:{'+'.join(bad)}",
            f"{name}: construction not normalised by the DST rules", zone=zone, wall=us_to_fields(w), fold=fold,
            raise_flag=rflag, cls=cls, expected=exp, got=judge.desc(ret) if ret is not None else None,
            exc=repr(exc) if exc is not None else None)


def _zone_of(P, tz):
    from pendulum.tz.timezone import FixedTimezone, Timezone

    if isinstance(tz, Timezone):
        return ("iana", tz.key)
    if isinstance(tz, FixedTimezone):
        return ("fixed", tz.offset)
    if isinstance(tz, str):
        return ("iana", tz) if tz in ZONES else None
    if isinstance(tz, bool):
        return None
    if isinstance(tz, (int, float)):
        return ("fixed", int(tz * 3600))
    key = getattr(tz, "key", None)
    if isinstance(key, str) and key in ZONES:
        return ("iana", key)
    return None


def _w(vals):
    try:
        return wall_us(dt.datetime(*[int(v) for v in vals]))
    except (ValueError, TypeError, OverflowError):
        return None


def setup(M):
    import pendulum
    from pendulum.datetime import DateTime
    from pendulum.tz.exceptions import AmbiguousTime, NonExistingTime
    from pendulum.tz.timezone import FixedTimezone, Timezone

    M.pendulum = pendulum
    ZONES.update(tzdb.zone_names())
    DSTX = (AmbiguousTime, NonExistingTime)

    # ---- Timezone.convert / FixedTimezone.convert, naive branch
    def conv_args(a, k):
        tz, d = a[0], a[1]
        r = a[2] if len(a) > 2 else k.get("raise_on_unknown_times", False)
        return tz, d, r

    def conv_post(ret, a, k, snap):
        tz, d, r = conv_args(a, k)
        if d.tzinfo is not None:
            return
        bad_type = type(ret) is not type(d) and not (isinstance(ret, dt.datetime))
        judge_result(M, "convert", _zone_of(pendulum, tz), wall_us(d), d.fold, r, ret=ret)
        if ret.tzinfo is not tz:
            M.check("convert", False, "C02/convert:tzinfo", "convert() result does not carry the timezone", got=repr(ret))

    def conv_exc(e, a, k, snap):
        tz, d, r = conv_args(a, k)
        if d.tzinfo is None and isinstance(e, DSTX):
            judge_result(M, "convert", _zone_of(pendulum, tz), wall_us(d), d.fold, r, exc=e)

    M.contract(Timezone, "convert", post=conv_post, exc=conv_exc, label="Timezone.convert")
    M.contract(FixedTimezone, "convert", post=conv_post, exc=conv_exc, label="FixedTimezone.convert")

    def tzdt_post(ret, a, k, snap):
        vals = list(a[1:]) + [0] * (7 - len(a[1:]))
        names = ("year", "month", "day", "hour", "minute", "second", "microsecond")
        for i, n in enumerate(names):
            if n in k:
                vals[i] = k[n]
        w = _w(vals)
        if w is not None:
            judge_result(M, "tz.datetime", _zone_of(pendulum, a[0]), w, 1, False, ret=ret)

    M.contract(Timezone, "datetime", post=tzdt_post, label="Timezone.datetime")
    M.contract(FixedTimezone, "datetime", post=tzdt_post, label="FixedTimezone.datetime")

    # ---- DateTime.create / pendulum.datetime
    CN = ("year", "month", "day", "hour", "minute", "second", "microsecond", "tz", "fold", "raise_on_unknown_times")
    CD = (None, None, None, 0, 0, 0, 0, pendulum.UTC, 1, False)

    def cbind(a, k):
        v = dict(zip(CN, CD))
        v.update(zip(CN, a))
        v.update(k)
        return v

    def mk_create(name, skip_first):
        def post(ret, a, k, snap):
            v = cbind(a[1:] if skip_first else a, k)
            w = _w([v[n] for n in CN[:7]])
            if w is None:
                return
            if v["tz"] is None:
                M.check(name, ret.tzinfo is None and wall_us(ret) == w, f"C02/{name}:naive", "naive construction altered",
                        got=judge.desc(ret))
                return
            zone = _zone_of(pendulum, v["tz"])
            if zone is None:
                M.count(name + ".skipped_tz")
                return
            judge_result(M, name, zone, w, v["fold"], v["raise_on_unknown_times"], ret=ret)
            if type(ret) is not DateTime and not skip_first:
                M.check(name, False, f"C02/{name}:type", "not a DateTime", got=repr(ret))

        def exc(e, a, k, snap):
            if not isinstance(e, DSTX):
                return
            v = cbind(a[1:] if skip_first else a, k)
            w = _w([v[n] for n in CN[:7]])
            zone = _zone_of(pendulum, v["tz"]) if v["tz"] is not None else None
            if w is not None and zone is not None:
                judge_result(M, name, zone, w, v["fold"], v["raise_on_unknown_times"], exc=e)
        return post, exc

    p, e = mk_create("create", True)
    M.contract(DateTime, "create", post=p, exc=e, label="DateTime.create")
    p, e = mk_create("datetime", False)
    M.contract(pendulum, "datetime", post=p, exc=e, label="pendulum.datetime")

    # ---- set / replace (effective fold = the instance's fold, or replace(fold=))
    SN = ("year", "month", "day", "hour", "minute", "second", "microsecond")

    def set_post(ret, a, k, snap):
        x = a[0]
        v = dict(zip(SN + ("tz",), a[1:]))
        v.update(k)
        vals = [v.get(n) if v.get(n) is not None else getattr(x, n) for n in SN]
        tz = v.get("tz") if v.get("tz") is not None else x.tz
        w = _w(vals)
        if w is None or tz is None:
            return
        zone = _zone_of(pendulum, tz)
        if zone is not None:
            judge_result(M, "set", zone, w, x.fold, False, ret=ret)

    M.contract(DateTime, "set", post=set_post, label="DateTime.set")

    def repl_post(ret, a, k, snap):
        x = a[0]
        v = dict(zip(SN + ("tzinfo", "fold"), a[1:]))
        v.update(k)
        vals = [v.get(n) if v.get(n) is not None else getattr(x, n) for n in SN]
        tzi = v.get("tzinfo", True)
        tzi = x.tzinfo if tzi is True else tzi
        fold = v.get("fold") if v.get("fold") is not None else x.fold
        w = _w(vals)
        if w is None:
            return
        if tzi is None:
            M.check("replace", ret.tzinfo is None and wall_us(ret) == w, "C02/replace:naive", "naive replace altered",
                    got=judge.desc(ret))
            return
        zone = _zone_of(pendulum, tzi)
        if zone is not None:
            judge_result(M, "replace", zone, w, fold, False, ret=ret)

    M.contract(DateTime, "replace", post=repl_post, label="DateTime.replace")
    if M.spec.get("suite"):
        return
    n = 0
    for z in gen.shard_zones(M):
        n += tzdb.Z.get(z).selfcheck()
    M.count("oracle_selfcheck_points", n)


# ---------------------------------------------------------------- workload
def cases(M):
    r = gen.rng(M)
    thorough = M.tier == "thorough"
    if M.config == "ext0" and not thorough:
        zones = gen.hostile()[M.shard::M.nshards]
    else:
        zones = gen.shard_zones(M)
    rot = 0
    for zn in zones:
        z = tzdb.Z.get(zn)
        for i, (t, ob, oa, _) in enumerate(z.trans):
            lo, hi = sorted(((t + ob) * US, (t + oa) * US))
            ws = (lo - 1, lo, lo + 1, (lo + hi) // 2, hi - 1, hi)
            for pk, w in zip(W_PROBES, ws):
                if not (MIN_US + 400 * DAY_US < w < MAX_US - 400 * DAY_US):
                    continue
                for f in (0, 1):
                    for rf in (False, True):
                        yield {"z": zn, "w": w, "f": f, "r": rf, "path": "datetime", "ti": i, "pk": pk}
                        paths = PATHS if thorough else (PATHS[rot % len(PATHS)],)
                        rot += 1
                        for p in paths:
                            yield {"z": zn, "w": w, "f": f, "r": rf, "path": p, "ti": i, "pk": pk}
    names = gen.all_zones()
    for j in range(100000 if thorough else 10000):
        w = gen.random_instant(r) if j % 2 else gen.modern_instant(r)
        zn = r.choice(names) if j % 4 else r.choice((r.randrange(-86399, 86400), r.randrange(-1439, 1440) * 60))
        yield {"z": zn, "w": w, "f": j % 2, "r": bool(j % 3 == 0), "path": r.choice(("datetime",) + PATHS), "ti": -1, "pk": "rand"}


def run(M, c):
    P = M.pendulum
    DateTime = P.DateTime
    from pendulum.tz.exceptions import AmbiguousTime, NonExistingTime

    zn, w, f, rf, path = c["z"], c["w"], c["f"], c["r"], c["path"]
    F = us_to_fields(w)
    if isinstance(zn, str):
        tz = P.timezone(zn)
        zone = ("iana", zn)
        cls = expect(zone, w, f, rf)[1]
        if cls != "once":
            M.cls(zn, c["ti"], c["pk"], f, rf, path)
    else:
        tz = P.tz.timezone.FixedTimezone(zn)
        zone = ("fixed", zn)
        M.cls("fixed", path, f, rf, w % 11)
    M.sample(c)
    ret = exc = None
    eff_f, eff_r = f, rf
    try:
        if path == "datetime":
            ret = P.datetime(*F, tz=zn if isinstance(zn, str) else tz, fold=f, raise_on_unknown_times=rf)
        elif path == "create":
            ret = DateTime.create(*F, tz=tz, fold=f, raise_on_unknown_times=rf)
        elif path == "convert":
            ret = tz.convert(dt.datetime(*F, fold=f), raise_on_unknown_times=rf)
        elif path == "convert_pd":
            ret = tz.convert(DateTime(*F, fold=f), raise_on_unknown_times=rf)
        elif path == "tzdatetime":
            eff_f, eff_r = 1, False
            ret = tz.datetime(*F)
        elif path == "set":
            eff_r = False
            base = DateTime(2001, 2, 3, 4, 5, 6, 7, tzinfo=tz, fold=f)
            ret = base.set(*F)
        elif path == "at":
            eff_r = False
            base = DateTime(F[0], F[1], F[2], 12, 34, 56, 7, tzinfo=tz, fold=f)
            ret = base.at(*F[3:])
        elif path == "on":
            eff_r = False
            base = DateTime(2001, 2, 3, *F[3:], tzinfo=tz, fold=f)
            ret = base.on(*F[:3])
        elif path in ("set_sub", "set_time"):
            # only the sub-minute (or the hour/minute) fields are given: the instance is a valid local time in the same
            # minute (day) - needed to reach the inside of gaps whose edge is not on a minute boundary (LMT changes)
            eff_r = False
            base = None
            for probe in ([w // (60 * US) * 60 * US + s_ * US for s_ in (59, 0, 30, 45, 15)] if path == "set_sub" else
                          [w // DAY_US * DAY_US + h_ * 3600 * US for h_ in (12, 6, 18, 23, 3)]):
                if isinstance(zn, str):
                    e_, c_ = expect(zone, probe, f, False)
                    if c_ != "once" or e_[0] != "value":
                        continue
                base = DateTime(*us_to_fields(probe), tzinfo=tz, fold=f)
                break
            if base is None:
                return
            ret = base.set(second=F[5], microsecond=F[6]) if path == "set_sub" else base.set(hour=F[3], minute=F[4], second=F[5], microsecond=F[6])
        elif path == "set_tz":
            # every field and another zone given at once: the fields are read in the requested zone only (an instance
            # sitting in a zone where these very fields are skipped or repeated must not leave a trace)
            eff_r = False
            other = ("UTC", "Asia/Tokyo", "America/New_York", "Europe/Paris", "Australia/Lord_Howe")[(w // 7) % 5]
            if not isinstance(zn, str) or other == zn:
                return
            base = DateTime(2001, 2, 3, 4, 5, 6, 7, tzinfo=tz, fold=f)
            ret2 = base.set(*F, tz=other)
            judge_result(M, "boundary", ("iana", other), w, f, False, ret=ret2, sigp="boundary-set_tz")
            if type(ret2) is not DateTime or judge.zkind(ret2) != ("iana", other):
                M.check("boundary", False, "C02/boundary-set_tz:type-or-zone", "result type/zone", got=judge.desc(ret2))
            return
        elif path == "replace":
            eff_r = False
            base = DateTime(2001, 2, 3, 4, 5, 6, 7, tzinfo=tz, fold=f)
            ret = base.replace(*F)
        elif path == "replace_fold":
            eff_r = False
            base = DateTime(2001, 2, 3, 4, 5, 6, 7, tzinfo=tz, fold=1 - f)
            ret = base.replace(*F, fold=f)
        elif path == "parse":
            eff_f, eff_r = 1, False
            s = "%04d-%02d-%02dT%02d:%02d:%02d.%06d" % F
            form = (w // 2) % 8 if F[0] >= 1583 else (w // 2) % 3
            if form:
                # the same wall time written in the other ISO 8601 forms (space separator, basic format, ordinal date,
                # week date): whichever form the text has, parse(tz=) builds the value from its wall-clock fields
                d_ = dt.date(*F[:3])
                iy, iw, iwd = d_.isocalendar()
                ext_t, bas_t = "%02d:%02d:%02d.%06d" % F[3:], "%02d%02d%02d.%06d" % F[3:]
                s = (None, "%04d-%02d-%02d " % F[:3] + ext_t, "%04d%02d%02dT" % F[:3] + bas_t, "%04d-%03dT" % (F[0], d_.timetuple().tm_yday) + ext_t,
                     "%04d%03dT" % (F[0], d_.timetuple().tm_yday) + bas_t, "%04d-W%02d-%dT" % (iy, iw, iwd) + ext_t, "%04dW%02d%dT" % (iy, iw, iwd) + bas_t,
                     "%04d-%02d-%02dT" % F[:3] + ext_t.replace(".", ","))[form]
                M.count("parse_tz.other_iso_forms")
            ret = P.parse(s, tz=tz if w % 2 or not isinstance(zn, str) else zn)
        elif path == "local":
            eff_f, eff_r = 1, False
            P.set_local_timezone(tz)
            try:
                ret = P.local(*F)
            finally:
                P.set_local_timezone()
        elif path == "instance_naive":
            eff_r = False
            ret = P.instance(dt.datetime(*F, fold=f), tz=tz)
    except (AmbiguousTime, NonExistingTime) as e:
        exc = e
    if path in ("at", "on", "parse", "local", "set", "instance_naive", "replace_fold", "set_sub", "set_time"):
        judge_result(M, "boundary", zone, w, eff_f, eff_r, ret=ret, exc=exc, sigp="boundary-" + path)
        if ret is not None and (type(ret) is not DateTime or judge.zkind(ret) != zone):
            M.check("boundary", False, f"C02/boundary-{path}:type-or-zone", "result type/zone", got=judge.desc(ret))
