"""C04 — calendar-unit arithmetic follows the wall clock with end-of-month clamping.

Oracle: cal.add_wall (month shift + clamp, then weeks/days/time on the naive calendar)
followed by the C02 normalisation oracle with the default fold; Duration operands use
the Duration's public normalised components.  Contracts on DateTime.add/subtract,
Date.add/subtract, helpers.add_duration (all binding sites), DateTime._add_timedelta_ /
_subtract_timedelta, Date._add_timedelta/_subtract_timedelta; three-way agreement
(x - d, x + (-d), x.subtract(**components(d))) and add(-a) == subtract(a) at the
workload boundary.
"""
from __future__ import annotations

import datetime as dt
import sys

from pvmon import gen
from pvmon.common import DAY_US, MAX_US, MIN_US, US, fields, inst, off_us, td_us, us_to_fields, wall_us
from pvmon.oracle import cal, judge, tzdb
from pvmon.props import c02

PLAN = {
    "quick": {"configs": ["ext1", "ext0"], "nshards": 12, "nshards_ext0": 4, "timeout": 900},
    "thorough": {"configs": ["ext1", "ext0"], "nshards": 16, "timeout": 6000, "suite": ["ext1"]},
}
DECIDING = ["dt.add", "dt.subtract", "date.add", "date.subtract", "add_duration", "dt.plus_duration", "operators",
            "dt.minus_duration", "date.plus_duration", "date.minus_duration", "threeway", "neg_add_eq_subtract"]
FLOORS = {"quick": {"dt.add": 50000, "date.add": 10000, "threeway": 10000, "neg_add_eq_subtract": 10000, "operators": 10000},
          "thorough": {"dt.add": 500000, "date.add": 100000, "threeway": 100000, "neg_add_eq_subtract": 100000, "operators": 100000}}
REQUIRED_HOOKS = ["DateTime.add", "DateTime.subtract", "Date.add", "Date.subtract"]   # private hooks (add_duration, _add_timedelta_ ...) add reach only
TECHNIQUE = "runtime contracts on add/subtract/operator paths against an independent calendar model (month shift + clamp + C02 normalisation); three-way operator/method agreement checker; Duration operands incl. ones whose days are only implied by their time units"
LEVEL_TEXT = ("every observed calendar add/subtract on DateTime and Date, and every +/- with a Duration or Interval, is judged "
              "against an independent calendar model followed by the tz-database normalisation oracle; workloads aim at "
              "month-end clamps and at targets inside every gap/overlap; held on what was observed")
RULE = ("starts chosen so that the target lands in/near every gap and overlap of every zone (target wall = transition wall "
        "+ {start, middle, end-1us}, start = target minus the amount), plus all month shapes (28-31 days, day 1/27-31, leap "
        "day, year boundary) in UTC/naive/fixed/Date; amounts: months in +-{0..14,23,24,25,1200}, days beyond a month, all "
        "sign combinations, time units; distinct = (start shape, sign pattern, clamp?, landing class, call path); "
        "non-trivial = clamp happened or the target is in a gap/overlap or signs are mixed")
ASSUMPTIONS = ["trusted base: CPython datetime/calendar/zoneinfo, tz files; model cross-checked against dateutil.relativedelta at start-up",
               "`dt + d` for a Duration whose constructor keywords are not its canonical components is not judged (the statement fixes only `-`, `+(-d)` and subtract())",
               "results outside years 1..9999 and exotic wall-time geometry are skipped"]

NAMES = ("years", "months", "weeks", "days", "hours", "minutes", "seconds", "microseconds")


def _bind(a, k, n=8):
    v = dict(zip(NAMES[:n], a[1:]))
    v.update(k)
    return [v.get(x, 0) for x in NAMES]


def model(x, vals):
    """expected outcome of x.add(*vals): ('value', inst|None, wall) | None (skip)"""
    if not all(type(v) is int for v in vals):
        return None
    k = judge.zkind(x)
    if k[0] == "foreign":
        return None
    if not any(vals[:4]):
        tot = ((vals[4] * 60 + vals[5]) * 60 + vals[6]) * US + vals[7]
        if k[0] == "naive":
            w = wall_us(x) + tot
            return ("naive", None, w) if MIN_US + 3 * DAY_US < w < MAX_US - 3 * DAY_US else None
        if not judge.valid_local(x) or abs(tot) > 10**9 * US:
            return None
        u = inst(x) + tot
        return ("instant", u, None) if MIN_US + 3 * DAY_US < u < MAX_US - 3 * DAY_US else None
    w = cal.add_wall(fields(x), *vals)
    if w is None or not (MIN_US + 3 * DAY_US < w < MAX_US - 3 * DAY_US):
        return None
    if k[0] == "naive":
        return ("naive", None, w)
    exp, cls = c02.expect(k, w, 1, False)
    if exp[0] != "value":
        return None
    return ("value", exp[1], exp[2], cls)


def judge_add(M, name, x, vals, ret, sigp):
    exp = model(x, vals)
    if exp is None:
        M.count(name + ".skipped")
        return None
    bad = []
    if type(ret) is not type(x):
        bad.append("type")
    elif judge.zkind(ret) != judge.zkind(x):
        bad.append("zone")
    elif exp[0] == "naive":
        if wall_us(ret) != exp[2]:
            bad.append("wall")
    elif exp[0] == "instant":
        bad = judge.render_problems(ret, exp[1])
    else:
        if wall_us(ret) != exp[2]:
            bad.append("wall")
        if inst(ret) != exp[1]:
            bad.append("instant")
    M.check(name, not bad, f"C04/{sigp}:{'+'.join(bad)}", f"{name}: result differs from the calendar model",
            start=judge.desc(x), amounts=dict(zip(NAMES, vals)), got=judge.desc(ret), expected=exp)
    return not bad


def date_model(x, vals):
    if not all(type(v) is int for v in vals[:4]):
        return None
    w = cal.add_wall((x.year, x.month, x.day), *vals[:4])
    if w is None or not (MIN_US <= w <= MAX_US):
        return None
    return us_to_fields(w)[:3]


def comps(d):
    """public normalised components of a Duration"""
    return [d.years, d.months, d.weeks, d.remaining_days, d.hours, d.minutes, d.remaining_seconds, d.microseconds]


def setup(M):
    import pendulum
    from pendulum.date import Date
    from pendulum.datetime import DateTime

    M.pendulum = pendulum
    c02.ZONES.update(tzdb.zone_names())
    # model cross-check against dateutil.relativedelta (oracle fault if they disagree)
    try:
        from dateutil.relativedelta import relativedelta
        import random

        r = random.Random(1)
        for _ in range(3000):
            base = dt.datetime(r.randrange(1900, 2100), r.randrange(1, 13), r.randrange(1, 29) + r.choice((0, 0, 3)) if False else 1)
            base = base.replace(day=r.randrange(1, cal.dim(base.year, base.month) + 1), hour=r.randrange(24))
            kw = dict(years=r.randrange(-3, 4), months=r.randrange(-30, 31), weeks=r.randrange(-5, 6), days=r.randrange(-400, 400),
                      hours=r.randrange(-50, 50), minutes=r.randrange(-100, 100), seconds=r.randrange(-100, 100),
                      microseconds=r.randrange(-2 * 10**6, 2 * 10**6))
            w = cal.add_wall(fields(base), *[kw[n] for n in NAMES])
            if wall_us(base + relativedelta(**kw)) != w:
                raise tzdb.OracleFault(f"calendar model != relativedelta for {base} {kw}")
        M.count("model_crosschecked", 3000)
    except ImportError:
        M.count("model_crosscheck_unavailable")

    def dt_add(sign, name):
        def post(ret, a, k, snap):
            vals = [sign * v if isinstance(v, (int, float)) else v for v in _bind(a, k)]
            if not any(vals[:4]):
                return  # fixed-length only: C03
            judge_add(M, name, a[0], vals, ret, name)
        return post

    def dt_raised(sign, name):
        def exc(e, a, k, snap):
            # the model has a representable answer well inside the range: raising is not "out of range"
            vals = [sign * v if isinstance(v, (int, float)) else v for v in _bind(a, k)]
            if not any(vals[:4]) or model(a[0], vals) is None:
                return
            M.check(name, False, f"C04/{name}:raised-{type(e).__name__}", f"{name} raised although the calendar model has a representable result",
                    start=judge.desc(a[0]), amounts=dict(zip(NAMES, vals)), exc=repr(e)[:120])
        return exc

    def date_raised(sign, name):
        def exc(e, a, k, snap):
            if isinstance(a[0], DateTime):
                return
            vals = [sign * v if isinstance(v, (int, float)) else v for v in _bind(a, k, 4)]
            e1 = date_model(a[0], vals)
            if e1 is None or not (3 <= e1[0] <= 9997):
                return
            M.check(name, False, f"C04/{name}:raised-{type(e).__name__}", f"{name} raised although the calendar model has a representable result",
                    start=repr(a[0]), amounts=vals[:4], exc=repr(e)[:120])
        return exc

    M.contract(DateTime, "add", post=dt_add(1, "dt.add"), exc=dt_raised(1, "dt.add"), label="DateTime.add")
    M.contract(DateTime, "subtract", post=dt_add(-1, "dt.subtract"), exc=dt_raised(-1, "dt.subtract"), label="DateTime.subtract")

    def date_add(sign, name):
        def post(ret, a, k, snap):
            if isinstance(a[0], DateTime):
                return
            vals = [sign * v if isinstance(v, int) else v for v in _bind(a, k, 4)]
            exp = date_model(a[0], vals)
            if exp is None:
                return
            ok = type(ret) is type(a[0]) and fields(ret) == exp
            M.check(name, ok, f"C04/{name}", "Date arithmetic differs from the calendar model", start=repr(a[0]),
                    amounts=vals[:4], got=repr(ret), expected=exp)
        return post

    M.contract(Date, "add", post=date_add(1, "date.add"), exc=date_raised(1, "date.add"), label="Date.add")
    M.contract(Date, "subtract", post=date_add(-1, "date.subtract"), exc=date_raised(-1, "date.subtract"), label="Date.subtract")

    def ad_post(ret, a, k, snap):
        d0 = a[0]
        v = dict(zip(NAMES, a[1:]))
        v.update(k)
        vals = [v.get(x, 0) for x in NAMES]
        if not all(type(x) is int for x in vals) or getattr(d0, "tzinfo", None) is not None:
            M.count("add_duration.skipped")
            return
        w = cal.add_wall(fields(d0), *vals)
        if w is None or not (MIN_US <= w <= MAX_US):
            return
        exp = us_to_fields(w)
        got = fields(ret)
        M.check("add_duration", got == exp[:len(got)] and type(ret) is type(d0), "C04/add_duration",
                "add_duration differs from the calendar model", start=repr(d0), amounts=vals, got=repr(ret), expected=exp)

    for modname in ("pendulum.helpers", "pendulum.datetime", "pendulum.date", "pendulum.time"):
        mod = sys.modules.get(modname)
        if mod is not None and hasattr(mod, "add_duration"):
            M.contract(mod, "add_duration", post=ad_post, label=modname + ".add_duration")

    # operators with Duration / Interval operands
    def td_post(sign, name):
        def post(ret, a, k, snap):
            x, d = a[0], a[1]
            if not isinstance(d, pendulum.Duration):
                return
            if sign > 0 and not isinstance(d, pendulum.Interval):
                sg = getattr(d, "_signature", None)
                if sg is None or [sg[n] for n in NAMES] != comps(d):
                    M.count(name + ".noncanonical_skipped")
                    return
            vals = [sign * v for v in comps(d)]
            judge_add(M, name, x, vals, ret, name + ("-interval" if isinstance(d, pendulum.Interval) else ""))
        return post

    M.contract(DateTime, "_add_timedelta_", post=td_post(1, "dt.plus_duration"), label="DateTime._add_timedelta_")
    M.contract(DateTime, "_subtract_timedelta", post=td_post(-1, "dt.minus_duration"),
               label="DateTime._subtract_timedelta")

    def date_td(sign, name):
        def post(ret, a, k, snap):
            x, d = a[0], a[1]
            if isinstance(x, DateTime):
                return
            if isinstance(d, pendulum.Duration):
                vals = [sign * v for v in (d.years, d.months, d.weeks, d.remaining_days)]
            else:
                vals = [0, 0, 0, sign * dt.timedelta.days.__get__(d)]
            exp = date_model(x, vals)
            if exp is None:
                return
            M.check(name, type(ret) is type(x) and fields(ret) == exp, f"C04/{name}",
                    "Date +/- duration differs from the calendar model", start=repr(x), d=repr(d), got=repr(ret), expected=exp)
        return post

    M.contract(Date, "_add_timedelta", post=date_td(1, "date.plus_duration"), label="Date._add_timedelta")
    M.contract(Date, "_subtract_timedelta", post=date_td(-1, "date.minus_duration"), label="Date._subtract_timedelta")


# ---------------------------------------------------------------- workload
MONTHS = [0, 1, 2, 3, 4, 5, 6, 7, 8, 9, 10, 11, 12, 13, 14, 23, 24, 25, 1200]
DAYS = [0, 1, 2, 27, 28, 29, 30, 31, 32, 45, 59, 60, 61, 365, 366, 400]


def _amount(r):
    sg = lambda: r.choice((1, 1, -1))
    z = lambda v: r.choice((0, 0, v))
    a = [sg() * z(r.randrange(0, 4)), sg() * r.choice(MONTHS[:15] + MONTHS), sg() * z(r.randrange(0, 6)),
         sg() * z(r.choice(DAYS)), sg() * z(r.randrange(0, 50)), sg() * z(r.randrange(0, 100)),
         sg() * z(r.randrange(0, 100)), sg() * z(r.randrange(0, 2 * 10**6))]
    if not any(a[:4]):
        a[r.randrange(4)] = sg() * r.choice((1, 1, 2, 12, 30))
    if r.random() < 0.08:
        # weeks and days of opposite sign that cancel: still "involving weeks or days" - the time units stay on the wall clock
        w_ = sg() * r.randrange(1, 4)
        a[0] = a[1] = 0
        a[2], a[3] = w_, -7 * w_
        if not any(a[4:]):
            a[4] = sg() * r.randrange(1, 30)
    return a


def cases(M):
    r = gen.rng(M)
    thorough = M.tier == "thorough"
    if M.config == "ext0" and not thorough:
        zones = gen.hostile()[M.shard::M.nshards]
    else:
        zones = gen.shard_zones(M)
    per = 3 if thorough else 1
    for zn in zones:
        z = tzdb.Z.get(zn)
        for i, (t, ob, oa, _) in enumerate(z.trans):
            lo, hi = sorted(((t + ob) * US, (t + oa) * US))
            for pk, w in (("start", lo), ("middle", (lo + hi) // 2), ("end-1us", hi - 1)):
                if not (MIN_US + 800 * DAY_US < w < MAX_US - 800 * DAY_US):
                    continue
                for _ in range(per):
                    yield {"k": "land", "z": zn, "w": w, "ti": i, "pk": pk, "amt": _amount(r), "via": r.randrange(6)}
    # the wall time after the year/month step alone is skipped in the zone, the remaining units move out of the gap again:
    # only the final wall-clock value may be normalised
    for zn in (zones if thorough else zones[:6]) + ["Europe/Paris", "America/New_York"][M.shard % 2:][:1]:
        z = tzdb.Z.get(zn)
        gaps = [(t, ob, oa) for (t, ob, oa, _) in z.trans if oa > ob and 1950 < 1970 + t // 31556952 < 2036]
        for t, ob, oa in gaps[-(8 if thorough else 3):]:
            w = (t + ob) * US + r.randrange(1, (oa - ob) * US)
            nmo = r.choice((1, 2, 3, 12, -1, -2, 13))
            amt = [nmo // 12 if abs(nmo) >= 12 else 0, nmo % 12 if nmo > 0 else -((-nmo) % 12), r.choice((0, 0, 1)), r.choice((1, -1, 2, 0)),
                   r.choice((0, 0, 5, -3)), 0, 0, 0]
            if not any(amt[2:]):
                amt[3] = 1
            yield {"k": "midgap", "z": zn, "w": w, "amt": amt, "via": r.randrange(6)}
    # month shapes in UTC / naive / fixed / Date
    reps = 8 if thorough else 1
    for y in (1999, 2000, 2019, 2020, 2100, 1, 9998, 1600, 1800, 2200, 1900, 2400, 1000, 200) if thorough else (1999, 2000, 2020, 2100, 1, 9998, 1800, 2200, 1000):
        for mo in range(1, 13):
            for d in (1, 15, 27, 28, 29, 30, 31):
                if d > cal.dim(y, mo):
                    continue
                for kind in ("utc", "naive", "fixed", "date", "zone"):
                    for _ in range(reps):
                        yield {"k": "shape", "y": y, "mo": mo, "d": d, "kind": kind, "amt": _amount(r), "via": r.randrange(6),
                               "tod": r.randrange(86400 * US), "zn": r.choice(gen.hostile())}
    for j in range(200000 if thorough else 20000):
        u = gen.modern_instant(r) if j % 3 else gen.random_instant(r)
        yield {"k": "rand", "u": u, "zn": r.choice(zones or ["UTC"]), "amt": _amount(r), "via": r.randrange(6)}


def _start_for_landing(zn, w, amt):
    """start wall such that the calendar model moves it (close) to target wall w"""
    back = w - ((amt[2] * 7 + amt[3]) * DAY_US + ((amt[4] * 60 + amt[5]) * 60 + amt[6]) * US + amt[7])
    f = us_to_fields(back)
    s = cal.shift_months(f[0], f[1], f[2], -amt[0], -amt[1])
    if s is None:
        return None
    return wall_us(dt.datetime(*s, *f[3:]))


def run(M, c):
    P = M.pendulum
    amt = c["amt"]
    x = None
    if c["k"] == "land":
        sw = _start_for_landing(c["z"], c["w"], amt)
        if sw is None or not (MIN_US + 400 * DAY_US < sw < MAX_US - 400 * DAY_US):
            return
        exp, cls = c02.expect(("iana", c["z"]), sw, 1, False)
        if exp[0] != "value":
            return
        x = gen.mk(c["z"], exp[1])
        key = (c["z"], c["ti"], c["pk"])
    elif c["k"] == "midgap":
        # start = the gap's wall time moved back by the year/month part (same time of day), when that exists once
        f = us_to_fields(c["w"])
        sm0 = cal.shift_months(f[0], f[1], f[2], -amt[0], -amt[1])
        if sm0 is None:
            return
        fwd = cal.shift_months(sm0[0], sm0[1], sm0[2], amt[0], amt[1])
        if fwd is None or tuple(fwd) != tuple(f[:3]):
            return                      # clamping: the forward shift does not come back to the gap day
        sw = wall_us(dt.datetime(*sm0, *f[3:]))
        exp, cls = c02.expect(("iana", c["z"]), sw, 1, False)
        if exp[0] != "value" or cls != "once":
            return
        x = gen.mk(c["z"], exp[1])
        key = ("midgap", c["z"])
    elif c["k"] == "shape":
        H = us_to_fields(c["tod"])[3:]
        y, mo, d = c["y"], c["mo"], c["d"]
        kind = c["kind"]
        if kind == "utc":
            x = P.DateTime(y, mo, d, *H, tzinfo=P.UTC)
        elif kind == "naive":
            x = P.DateTime(y, mo, d, *H)
        elif kind == "fixed":
            x = P.DateTime(y, mo, d, *H, tzinfo=P.tz.timezone.FixedTimezone(c["tod"] % 172799 - 86399))
        elif kind == "date":
            x = P.Date(y, mo, d)
        else:
            if not 1850 < y < 2100:
                return
            w = wall_us(dt.datetime(y, mo, d, *H))
            exp, cls = c02.expect(("iana", c["zn"]), w, 1, False)
            if exp[0] != "value":
                return
            x = gen.mk(c["zn"], exp[1])
        key = ("shape", kind, mo, d, cal.dim(y, mo))
    else:
        x = gen.mk(c["zn"], c["u"])
        key = ("rand", c["zn"])
    M.sample(c)
    isdate = not isinstance(x, dt.datetime)
    vals = list(amt)
    if isdate:
        vals[4:] = [0, 0, 0, 0]
    kw = {n: v for n, v in zip(NAMES, vals) if v or n == "days"}
    if isdate:
        kw = {n: v for n, v in kw.items() if n in NAMES[:4]}
    signs = tuple((v > 0) - (v < 0) for v in vals)
    # class key: clamp?, landing class
    f = fields(x)
    sm = cal.shift_months(f[0], f[1], f[2], vals[0], vals[1])
    clamp = sm is not None and sm[2] != f[2]
    land = "-"
    if not isdate:
        m = model(x, vals)
        if m is not None and len(m) > 3:
            land = m[3]
    if clamp or land in ("gap", "twice") or len(set(signs) - {0}) > 1:
        M.cls(key, signs, clamp, land, c["via"])
    try:
        got = x.add(**kw)                                 # contract
        neg = x.subtract(**{n: -v for n, v in kw.items()})  # contract
    except (OverflowError, ValueError):
        M.count("out_of_range")
        return
    M.check("neg_add_eq_subtract", _same(got, neg), "C04/neg-add-vs-subtract", "add(-a) != subtract(a)", start=judge.desc(x),
            amounts=kw, add=judge.desc(got), sub=judge.desc(neg))
    # Duration operand paths
    try:
        if c["via"] % 3 == 0:
            D = P.duration(**kw)
        elif c["via"] % 3 == 1:
            D = -P.duration(**{n: -v for n, v in kw.items()})
        else:
            # an Interval (is a Duration) as operand; absolute ones cannot be negated (-d is d)
            other = x.add(**kw)
            D = other - x
            if c["via"] == 5:
                D = abs(D)
    except (OverflowError, ValueError):
        return
    cp = comps(D)
    ckw = dict(zip(NAMES, cp))
    if isdate:
        ckw = {n: v for n, v in ckw.items() if n in NAMES[:4]}
    try:
        m1 = x - D                     # contract (minus_duration)
        m2 = x + (-D)                  # contract (plus_duration, canonical by construction of __neg__)
        m3 = x.subtract(**ckw)
        p1 = x + D                     # contract (plus_duration when canonical / Interval)
    except (OverflowError, ValueError):
        M.count("out_of_range")
        return
    if isinstance(D, P.Interval) and D._absolute:
        m2 = m3                    # -d is d for an absolute interval: only dt - d == subtract(components) is required
    # the operators judged at the boundary against the calendar model (does not depend on any private hook)
    if not isdate:
        judge_add(M, "operators", x, [-v for v in cp], m1, "operator-minus" + ("-interval" if isinstance(D, P.Interval) else ""))
        sg = getattr(D, "_signature", None)
        agree = False
        if c["via"] % 3 == 0:
            # d was built from `vals`: whichever of the two readings `+` follows (the arguments d was built from or its
            # normalised components), the result is fixed whenever the calendar model gives both the same answer
            ea, ec = model(x, vals), model(x, cp)
            agree = ea is not None and ea == ec
        if isinstance(D, P.Interval) or agree or (sg is not None and [sg[n] for n in NAMES] == cp):
            judge_add(M, "operators", x, cp, p1, "operator-plus" + ("-interval" if isinstance(D, P.Interval) else ""))
            # the same `+` written with the Duration on the left (reflected operator)
            try:
                rp = D + x
            except (OverflowError, ValueError):
                M.count("out_of_range")
            else:
                judge_add(M, "operators", x, cp, rp, "operator-rplus" + ("-interval" if isinstance(D, P.Interval) else ""))
        tot = vals[6] * 10**6 + vals[7]
        if tot and c["via"] % 3 != 2:
            # the same amount with its sub-minute part handed to Duration() as milliseconds= (+ a microsecond rest, split
            # by floor or towards zero): a constructor argument add() does not have
            ms = tot // 1000 if c["via"] % 2 else -((-tot) // 1000)
            kwm = dict(zip(NAMES[:6], vals[:6]), milliseconds=ms, microseconds=tot - ms * 1000)
            try:
                Dm = P.duration(**{n: v for n, v in kwm.items() if v})
                cpm = comps(Dm)
                pm, rpm, mm = x + Dm, Dm + x, x - Dm
            except (OverflowError, ValueError):
                M.count("out_of_range")
            else:
                ea, ec = model(x, vals), model(x, cpm)
                if ea is not None and ea == ec:
                    judge_add(M, "operators", x, cpm, pm, "operator-plus-ms")
                    judge_add(M, "operators", x, cpm, rpm, "operator-rplus-ms")
                judge_add(M, "operators", x, [-v for v in cpm], mm, "operator-minus-ms")
    else:
        e1 = date_model(x, [-v for v in cp])
        if e1 is not None:
            M.check("operators", fields(m1) == e1, "C04/operator-minus:date", "Date - duration differs from the calendar model", start=repr(x), d=repr(D), got=repr(m1))
        e2 = date_model(x, cp)
        if e2 is not None and not any(cp[4:]):
            M.check("operators", type(p1) is type(x) and fields(p1) == e2, "C04/operator-plus:date", "Date + duration differs from the calendar model",
                    start=repr(x), d=repr(D), got=repr(p1))
            try:
                rp = D + x                 # the Duration on the left (reflected operator)
            except (OverflowError, ValueError):
                M.count("out_of_range")
            else:
                M.check("operators", type(rp) is type(x) and fields(rp) == e2, "C04/operator-rplus:date", "duration + Date differs from the calendar model",
                        start=repr(x), d=repr(D), got=repr(rp))
    if not isdate and c["via"] % 2 == 0:
        _implied_days(M, x, vals, key)
    ok = _same(m1, m2) and _same(m2, m3)
    which = ("m1!=m2 " if not _same(m1, m2) else "") + ("m2!=m3" if not _same(m2, m3) else "")
    M.check("threeway", ok, "C04/threeway:" + ("interval" if isinstance(D, P.Interval) else "duration") + (":date" if isdate else ""),
            "dt - d, dt + (-d), dt.subtract(**components(d)) disagree: " + which, start=judge.desc(x), d=repr(D),
            minus=judge.desc(m1), plus_neg=judge.desc(m2), subtract=judge.desc(m3))


def _implied_days(M, x, vals, key):
    """a Duration whose day part is only implied by its time units (hours=48, minutes=2160 ...): the operators and
    subtract() must all follow its normalised components"""
    P = M.pendulum
    hours = vals[4] + 24 * (7 * vals[2] + vals[3])
    kw = {"years": vals[0], "months": vals[1], "hours": hours, "minutes": vals[5], "seconds": vals[6], "microseconds": vals[7]}
    if hours % 2:
        kw["minutes"] += 60 * hours
        kw["hours"] = 0
    try:
        D = P.duration(**{n: v for n, v in kw.items() if v})
        cp = comps(D)
        m1 = x - D
        m2 = x + (-D)
        m3 = x.subtract(**dict(zip(NAMES, cp)))
    except (OverflowError, ValueError):
        M.count("out_of_range")
        return
    # (dt + d for such a d follows the arguments d was built from - `_signature` - which the statement does not fix;
    #  only the three subtraction forms are required to agree)
    judge_add(M, "operators", x, [-v for v in cp], m1, "operator-minus-implied-days")
    ok = _same(m1, m2) and _same(m2, m3)
    M.check("threeway", ok, "C04/threeway:duration:implied-days", "dt - d, dt + (-d), dt.subtract(**components(d)) disagree for a Duration built from "
            "time units only", start=judge.desc(x), d=repr(D), minus=judge.desc(m1), plus_neg=judge.desc(m2), subtract=judge.desc(m3))


def _same(a, b):
    if type(a) is not type(b):
        return False
    if isinstance(a, dt.datetime):
        return (fields(a), off_us(a) if a.tzinfo else None) == (fields(b), off_us(b) if b.tzinfo else None)
    return fields(a) == fields(b)
