"""C16 — weekday navigation lands on the right day inside the right unit.

Contracts on next/previous/first_of/last_of/nth_of of DateTime and Date.  Oracle: date
arithmetic on the local date (datetime.date ordinals); for DateTimes the result must be
the start of that local day (C12's clauses: on that date, the microsecond before is on
another date), or keep the time of day with keep_time.
"""
from __future__ import annotations

import calendar
import datetime as dt

from pvmon import gen
from pvmon.common import DAY_US, MAX_US, MIN_US, ORD0, US, fields, inst, off_us, us_to_fields, wall_us
from pvmon.oracle import judge, tzdb

PLAN = {
    "quick": {"configs": ["ext1", "ext0"], "nshards": 12, "nshards_ext0": 4, "timeout": 900, "calendar_first": [0, 6, 0, 5]},
    "thorough": {"configs": ["ext1", "ext0"], "nshards": 16, "timeout": 6000, "suite": ["ext1"], "calendar_first": [0, 6, 0, 5]},
}
DECIDING = ["next", "previous", "first_of", "last_of", "nth_of"]
FLOORS = {"quick": {"next": 20000, "previous": 20000, "first_of": 20000, "last_of": 20000, "nth_of": 50000},
          "thorough": {"next": 200000, "previous": 200000, "first_of": 200000, "last_of": 200000, "nth_of": 500000}}
REQUIRED_HOOKS = ["DateTime.next", "DateTime.previous", "DateTime.first_of", "DateTime.last_of", "DateTime.nth_of",
                  "Date.next", "Date.previous", "Date.first_of", "Date.last_of", "Date.nth_of"]
TECHNIQUE = "runtime contracts on the ten weekday-navigation methods against a date-arithmetic oracle (ordinals) plus the start-of-day clauses rendered by the tz-database oracle; weekday operand rotates WeekDay/int/calendar.Day; same-shape leap/common units visited in one process (history workload); instance times of day inside the skipped/repeated span of the target date; shards run under rotating calendar.setfirstweekday()"
LEVEL_TEXT = ("every observed next/previous/first_of/last_of/nth_of call on DateTime and Date is judged against ordinal date arithmetic; "
              "every month shape x weekday x n in 1..54 x unit, zones including days with a skipped or repeated midnight and values of "
              "both provenances; held on what was observed")
RULE = ("dates: every month shape (28-31 days x 7 starting weekdays, leap years) and all quarters of sampled years x 7 weekdays x n in "
        "{1..7, 13,14,15, 52,53,54} x {month, quarter, year}; DateTimes in UTC, hostile zones and on days whose midnight is skipped or "
        "repeated (from the tz data) with fold 0/1 and converted provenance; distinct = (type, method, unit, weekday, n, month shape, "
        "zone/transition); non-trivial = n > 1 or the target day has a skipped/repeated midnight or unit != month")
ASSUMPTIONS = ["trusted base: CPython datetime/calendar and the tz files",
               "a target date that does not exist in the zone (whole day skipped) is outside the statement and skipped",
               "with keep_time a wall time that is skipped or repeated on the target day may be normalised either way (C02 decides that), also when the normalised value falls on the next or previous calendar date"]


def unit_bounds(y, m, unit):
    if unit == "month":
        return dt.date(y, m, 1), dt.date(y, m, calendar.monthrange(y, m)[1])
    if unit == "quarter":
        q = (m - 1) // 3
        return dt.date(y, q * 3 + 1, 1), dt.date(y, q * 3 + 3, calendar.monthrange(y, q * 3 + 3)[1])
    return dt.date(y, 1, 1), dt.date(y, 12, 31)


def nth_date(first, last, wd, n):
    o = first.toordinal() + (wd - first.weekday()) % 7 + 7 * (n - 1)
    return dt.date.fromordinal(o) if o <= last.toordinal() else None


def last_date(first, last, wd):
    o = last.toordinal() - (last.weekday() - wd) % 7
    return dt.date.fromordinal(o)


def judge_day(M, name, x, ret, want_date, keep_time, sigp):
    """ret must be on want_date in x's zone at the start of the day (or at x's time of day)"""
    P = M.pendulum
    bad = []
    isdt = isinstance(x, dt.datetime)
    if type(ret) is not type(x):
        bad.append("type")
    elif not isdt:
        if (ret.year, ret.month, ret.day) != (want_date.year, want_date.month, want_date.day):
            bad.append("date")
    else:
        k = judge.zkind(x)
        if judge.zkind(ret) != k:
            bad.append("zone")
        elif keep_time and k[0] == "iana" and _kept_time_skipped(x, ret, want_date, k[1]):
            # x's time of day does not exist on the target date: there is no value "on that date at that time"; what comes
            # back is the construction rules' normalisation of that wall time (C02 decides which), possibly past midnight
            M.count("keep_time_skipped_on_target_normalised")
        elif (ret.year, ret.month, ret.day) != (want_date.year, want_date.month, want_date.day):
            bad.append("date")
        elif keep_time:
            if fields(ret)[3:] != fields(x)[3:]:
                # allowed only when x's time of day is skipped on that date
                w = (want_date.toordinal() - ORD0) * DAY_US + wall_us(x) % DAY_US
                if k[0] != "iana" or tzdb.Z.get(k[1]).classify_wall(w)[0] != "gap":
                    bad.append("time-not-kept")
        else:
            if k[0] in ("naive", "fixed"):
                if fields(ret)[3:] != (0, 0, 0, 0):
                    bad.append("not-midnight")
            elif k[0] == "iana":
                if not judge.valid_local(ret):
                    bad.append("invalid-local")
                else:
                    u = inst(ret)
                    f, off, fold = tzdb.Z.get(k[1]).render(u - 1)
                    if tuple(f[:3]) == (want_date.year, want_date.month, want_date.day):
                        bad.append("not-start-of-day")
    sit = ""
    if bad and isdt and judge.zkind(x)[0] == "iana":
        w = (want_date.toordinal() - ORD0) * DAY_US
        cls, cands, gap = tzdb.Z.get(x.tzinfo.key).classify_wall(w)
        sit = {"once": "", "twice": ":midnight-repeated", "gap": ":midnight-skipped", "exotic": ":midnight-exotic"}[cls]
        if cls == "gap" and (gap[0] + gap[1]) * US < w:
            sit += ":strictly-inside-gap"
    M.check(name, not bad, f"C16/{sigp}:{'+'.join(bad)}{sit}", f"{sigp} landed on the wrong day or time", x=_d(x), got=_d(ret),
            want_date=str(want_date), keep_time=keep_time)


def _kept_time_skipped(x, ret, want_date, zn):
    """x's time of day is skipped on want_date and ret is that wall time moved by the length of the gap (either way)"""
    w = (want_date.toordinal() - ORD0) * DAY_US + wall_us(x) % DAY_US
    cls, cands, gap = tzdb.Z.get(zn).classify_wall(w)
    if cls != "gap":
        return False
    t, ob, oa = gap
    return inst(ret) in (w - ob * US, w - oa * US)


def _exists(x, d):
    """does local date d exist in x's zone (not skipped entirely)?"""
    if not isinstance(x, dt.datetime) or judge.zkind(x)[0] != "iana":
        return True
    z = tzdb.Z.get(x.tzinfo.key)
    w = (d.toordinal() - ORD0) * DAY_US + 12 * 3600 * US
    if not (MIN_US + 3 * DAY_US < w < MAX_US - 3 * DAY_US):
        return False
    cls, cands, gap = z.classify_wall(w)
    return not (cls == "gap" and gap[2] - gap[1] >= 86400)


def _d(x):
    return judge.desc(x) if isinstance(x, dt.datetime) else repr(x)


def setup(M):
    import pendulum
    from pendulum.date import Date
    from pendulum.datetime import DateTime
    from pendulum.exceptions import PendulumException

    M.pendulum = pendulum

    def ok_input(x):
        if isinstance(x, dt.datetime):
            k = judge.zkind(x)
            if k[0] == "foreign" or (k[0] == "iana" and not judge.valid_local(x)):
                return False
        return 3 <= x.year <= 9996

    def nav(cls, name, sign):
        def post(ret, a, k, snap):
            x = a[0]
            if not ok_input(x):
                return
            wd = a[1] if len(a) > 1 else k.get("day_of_week")
            keep = (a[2] if len(a) > 2 else k.get("keep_time", False)) if cls is DateTime else False
            if wd is None:
                wd = x.weekday()
            wd = int(wd)
            d0 = dt.date(x.year, x.month, x.day)
            delta = ((wd - d0.weekday()) % 7 or 7) if sign > 0 else -(((d0.weekday() - wd) % 7) or 7)
            want = dt.date.fromordinal(d0.toordinal() + delta)
            if not _exists(x, want):
                M.count(name + ".target_day_skipped")
                return
            judge_day(M, name, x, ret, want, keep, f"{cls.__name__}.{name}" + (":keep_time" if keep else ""))
        return post

    def fl(cls, name, last):
        def post(ret, a, k, snap):
            x = a[0]
            if not ok_input(x):
                return
            unit = a[1] if len(a) > 1 else k.get("unit")
            wd = a[2] if len(a) > 2 else k.get("day_of_week")
            if unit not in ("month", "quarter", "year"):
                return
            first, lastd = unit_bounds(x.year, x.month, unit)
            if wd is None:
                want = lastd if last else first
            else:
                want = last_date(first, lastd, int(wd)) if last else nth_date(first, lastd, int(wd), 1)
            if not _exists(x, want):
                return
            judge_day(M, name, x, ret, want, False, f"{cls.__name__}.{name}:{unit}")
        return post

    def nth(cls):
        def args(a, k):
            unit = a[1] if len(a) > 1 else k.get("unit")
            n = a[2] if len(a) > 2 else k.get("nth")
            wd = a[3] if len(a) > 3 else k.get("day_of_week")
            return unit, n, wd

        def post(ret, a, k, snap):
            x = a[0]
            unit, n, wd = args(a, k)
            if not ok_input(x) or unit not in ("month", "quarter", "year") or type(n) is not int or n < 1 or wd is None:
                return
            first, lastd = unit_bounds(x.year, x.month, unit)
            want = nth_date(first, lastd, int(wd), n)
            if want is None:
                M.check("nth_of", False, f"C16/{cls.__name__}.nth_of:{unit}:no-raise", "nth_of returned although the unit holds fewer",
                        x=_d(x), n=n, wd=int(wd), got=_d(ret))
                return
            if not _exists(x, want):
                return
            judge_day(M, "nth_of", x, ret, want, False, f"{cls.__name__}.nth_of:{unit}")

        def exc(e, a, k, snap):
            x = a[0]
            unit, n, wd = args(a, k)
            if not ok_input(x) or unit not in ("month", "quarter", "year") or type(n) is not int or n < 1 or wd is None:
                return
            first, lastd = unit_bounds(x.year, x.month, unit)
            want = nth_date(first, lastd, int(wd), n)
            if want is not None and not _exists(x, want):
                return
            ok = want is None and isinstance(e, PendulumException)
            M.check("nth_of", ok, f"C16/{cls.__name__}.nth_of:{unit}:raised-{type(e).__name__}" + ("" if want is None else ":although-exists"),
                    "nth_of raised wrongly", x=_d(x), n=n, wd=int(wd), exc=repr(e), want=str(want))
        return post, exc

    P_WD = M.pendulum.WeekDay

    def raised(cls, name, unit_at):
        """next/previous/first_of/last_of always have an answer for a valid weekday (and unit): raising is a violation"""
        def exc(e, a, k, snap):
            x = a[0]
            if not ok_input(x):
                return
            if unit_at is not None:
                unit = a[1] if len(a) > 1 else k.get("unit")
                if unit not in ("month", "quarter", "year"):
                    return
            wd = a[unit_at + 1 if unit_at is not None else 1] if len(a) > (unit_at + 1 if unit_at is not None else 1) else k.get("day_of_week")
            if wd is not None and not (type(wd) is int or isinstance(wd, P_WD)) or (wd is not None and not 0 <= int(wd) <= 6):
                return
            M.check(name, False, f"C16/{cls.__name__}.{name}:raised-{type(e).__name__}", f"{name} raised for a valid weekday", x=_d(x),
                    args=repr(a[1:])[:80], exc=repr(e)[:120])
        return exc

    for cls in (DateTime, Date):
        M.contract(cls, "next", post=nav(cls, "next", 1), exc=raised(cls, "next", None), label=f"{cls.__name__}.next")
        M.contract(cls, "previous", post=nav(cls, "previous", -1), exc=raised(cls, "previous", None), label=f"{cls.__name__}.previous")
        M.contract(cls, "first_of", post=fl(cls, "first_of", False), exc=raised(cls, "first_of", 1), label=f"{cls.__name__}.first_of")
        M.contract(cls, "last_of", post=fl(cls, "last_of", True), exc=raised(cls, "last_of", 1), label=f"{cls.__name__}.last_of")
        p, e = nth(cls)
        M.contract(cls, "nth_of", post=p, exc=e, label=f"{cls.__name__}.nth_of")


def _quiet(f, *a, **k):
    """call into the library; whatever it raises has been judged by the contract on that method"""
    try:
        return f(*a, **k)
    except Exception:  # noqa: BLE001
        return None


NS = [1, 2, 3, 4, 5, 6, 7, 13, 14, 15, 52, 53, 54]
NS_Q = [1, 2, 5, 13, 14, 53, 54]


def cases(M):
    r = gen.rng(M)
    thorough = M.tier == "thorough"
    names = gen.all_zones()
    # month shapes: 14 year types (start weekday x leap) covered by a 28-year window + century edges
    years = (list(range(2000, 2028)) + [1900, 2100, 4, 9995]) if thorough else (list(range(2000, 2028, 4)) + [2001, 2003, 1900, 4, 9995])
    # history: units that start on the same weekday but differ in length (February, first quarter and year of a leap
    # vs a common year) visited one after the other in ONE process, in both orders (anything memoised per unit shape)
    yield {"k": "history", "order": M.shard % 2, "kind": ("date", "utc", "zone")[M.shard % 3]}
    if M.shard % 4 == 0:
        yield {"k": "edge"}
    j = 0
    for y in years:
        for mo in range(1, 13):
            for day in ((1, 15, 28, 31) if thorough else (1, 28)):
                j += 1
                if j % M.nshards != M.shard:
                    continue
                if day > calendar.monthrange(y, mo)[1]:
                    continue
                for kind in (("date", "utc", "zone", "naive") if thorough else ("date", "zone", ("utc", "naive")[j % 2])):
                    yield {"k": "shape", "y": y, "mo": mo, "d": day, "kind": kind, "zn": r.choice(gen.hostile(names)), "tod": r.randrange(DAY_US)}
    # days whose midnight is skipped or repeated
    zones = gen.hostile(names)[M.shard::M.nshards] if (M.config == "ext0" and not thorough) else gen.shard_zones(M, names)
    for zn in zones:
        z = tzdb.Z.get(zn)
        for i, (t, ob, oa, _) in enumerate(z.trans):
            if not gen.ok_instant(t * US, 800):
                continue
            lo, hi = sorted(((t + ob) * US, (t + oa) * US))
            if not ((lo // DAY_US != (hi - 1) // DAY_US) or lo % DAY_US == 0 or hi % DAY_US == 0):
                continue
            if oa > ob and hi % DAY_US == 0 and us_to_fields(hi)[2] == 1:
                # the last day of a month lost its last hour(s): instances elsewhere in that quarter / year whose time of day
                # lies in the skipped span and whose day of month is at or beyond that month's length
                gf = us_to_fields(lo)
                for mo2 in range(1, 13):
                    yield {"k": "anchor", "zn": zn, "ti": i, "y": gf[0], "mo": mo2, "d": r.choice((28, 29, 30, 31)),
                           "tod": lo % DAY_US + r.randrange(max(1, hi - lo))}
            day_us = (hi // DAY_US) * DAY_US    # the local date whose midnight is affected
            for back in ((1, 3, 6, 8, 20) if thorough else (r.choice((1, 2, 3)), r.choice((6, 8, 20)))):
                yield {"k": "trans", "zn": zn, "ti": i, "target_wall": day_us, "back": back, "tod": r.randrange(DAY_US),
                       "prov": r.choice(("raw", "conv", "fold0", "fold1"))}
            # the instance's own time of day lies inside the skipped / repeated span (it exists on the instance's day but
            # not, or twice, on the target day): target = the date the span starts on and the date it ends on
            for tday in sorted({(lo // DAY_US) * DAY_US, ((hi - 1) // DAY_US) * DAY_US, day_us}):
                for back in ((1, 2, 5, 7) if thorough else (r.choice((1, 2, 3, 4)), r.choice((5, 6, 7)))):
                    yield {"k": "trans", "zn": zn, "ti": i, "target_wall": tday, "back": back, "tod": (lo + r.randrange(max(1, hi - lo))) % DAY_US,
                           "prov": r.choice(("raw", "conv", "fold0", "fold1")), "tod_in_span": 1}


def run(M, c):
    P = M.pendulum
    WD = P.WeekDay
    if c["k"] == "shape":
        y, mo, d = c["y"], c["mo"], c["d"]
        H = us_to_fields(c["tod"])[3:]
        kind = c["kind"]
        if kind == "date":
            x = P.Date(y, mo, d)
        elif kind == "utc":
            x = P.DateTime(y, mo, d, *H, tzinfo=P.UTC)
        elif kind == "naive":
            x = P.DateTime(y, mo, d, *H)
        else:
            if not 1850 < y < 2100:
                return
            from pvmon.props import c02

            exp, cls = c02.expect(("iana", c["zn"]), wall_us(dt.datetime(y, mo, d, *H)), 1, False)
            if exp[0] != "value":
                return
            x = gen.mk(c["zn"], exp[1])
        M.sample(c)
        dim = calendar.monthrange(y, mo)[1]
        fw = dt.date(y, mo, 1).weekday()
        import calendar as _calmod

        for wd in range(7):
            # the weekday is given as pendulum.WeekDay, as a plain int (what the docstrings advertise) or as the
            # standard library's calendar.MONDAY ... (an IntEnum of its own on 3.12): equal, not identical
            w = (WD(wd), wd, getattr(_calmod, "Day", int)(wd))[(wd + d + mo) % 3]
            _quiet(x.next, w)
            _quiet(x.previous, w)
            if kind not in ("date",):
                _quiet(x.next, w, keep_time=True)
                _quiet(x.previous, w, keep_time=True)
            for unit in ("month", "quarter", "year"):
                _quiet(x.first_of, unit, w)
                _quiet(x.last_of, unit, w)
                for n in (NS if (M.tier == "thorough" or unit == "month") else NS_Q):
                    M.cls(kind, unit, wd, n, dim, fw)
                    _quiet(x.nth_of, unit, n, w)
        _quiet(x.next)
        _quiet(x.previous)
        for unit in ("month", "quarter", "year"):
            _quiet(x.first_of, unit)
            _quiet(x.last_of, unit)
        return
    if c.get("k") == "anchor":
        from pvmon.props import c02

        y, mo = c["y"], c["mo"]
        d = min(c["d"], calendar.monthrange(y, mo)[1])
        H = us_to_fields(c["tod"])[3:]
        exp, cls_ = c02.expect(("iana", c["zn"]), wall_us(dt.datetime(y, mo, d, *H)), 1, False)
        if exp[0] != "value":
            return
        x = gen.mk(c["zn"], exp[1])
        M.cls("anchor", c["zn"], c["ti"], mo)
        M.sample(c)
        for unit in ("quarter", "year", "month"):
            _quiet(x.first_of, unit)
            _quiet(x.last_of, unit)
            for wd in (0, 3, 6):
                _quiet(x.first_of, unit, P.WeekDay(wd))
                _quiet(x.last_of, unit, P.WeekDay(wd))
                _quiet(x.nth_of, unit, 1, P.WeekDay(wd))
                _quiet(x.nth_of, unit, 2, P.WeekDay(wd))
        return
    if c.get("k") == "edge":
        # the first and last week of the representable range (Date): the answer either exists and must be returned, or lies
        # outside the range and the call must raise - an intermediate step outside the range is not a reason to fail
        lo, hi = dt.date.min.toordinal(), dt.date.max.toordinal()
        for o in list(range(lo, lo + 9)) + list(range(hi - 8, hi + 1)):
            d = dt.date.fromordinal(o)
            x = P.Date(d.year, d.month, d.day)
            for wd in range(7):
                for name, step in (("next", 1), ("previous", -1)):
                    e = o + step
                    while lo <= e <= hi and dt.date.fromordinal(e).weekday() != wd:
                        e += step
                    want = dt.date.fromordinal(e) if lo <= e <= hi else None
                    M.quiet += 1
                    try:
                        try:
                            got = getattr(x, name)(P.WeekDay(wd))
                            res = (got.year, got.month, got.day)
                        except (OverflowError, ValueError) as ex:
                            res = "raised-" + type(ex).__name__
                    finally:
                        M.quiet -= 1
                    ok = res == (want.year, want.month, want.day) if want is not None else isinstance(res, str)
                    M.check(name, ok, f"C16/Date.{name}:range-edge:" + ("raised-although-representable" if isinstance(res, str) else "wrong"),
                            f"Date.{name} at the end of the representable range", x=str(d), wd=wd, got=res, want=str(want))
                    M.cls("edge", o - lo if o < lo + 20 else o - hi, wd, name)
        M.sample(c)
        return
    if c.get("k") == "history":
        WD = P.WeekDay
        bywd = {}
        for y in range(1996, 2060):
            bywd.setdefault((dt.date(y, 2, 1).weekday(), calendar.isleap(y)), y)
        for fw in range(7):
            pair = [bywd.get((fw, False)), bywd.get((fw, True))]
            if None in pair:
                continue
            if c["order"]:
                pair.reverse()
            for y in pair:
                for mo, day in ((2, 10), (1, 20), (3, 31)):
                    x = P.Date(y, mo, day) if c["kind"] == "date" else P.DateTime(y, mo, day, 9, 30, tzinfo=P.UTC if c["kind"] == "utc" else P.timezone("Europe/Paris"))
                    for wd in range(7):
                        for unit in ("month", "quarter", "year"):
                            _quiet(x.first_of, unit, WD(wd))
                            _quiet(x.last_of, unit, WD(wd))
                            for n in (1, 4, 5, 13, 14, 53):
                                _quiet(x.nth_of, unit, n, WD(wd))
                        _quiet(x.next, WD(wd))
                        _quiet(x.previous, WD(wd))
                M.cls("history", fw, y, c["order"], c["kind"])
                M.progress()
        M.sample(c)
        return
    # transitions at midnight: start `back` days before the affected date and navigate onto it
    zn = c["zn"]
    z = tzdb.Z.get(zn)
    tw = c["target_wall"]
    target = dt.date.fromordinal(tw // DAY_US + ORD0)
    start_wall = tw - c["back"] * DAY_US + c["tod"]
    from pvmon.props import c02

    exp, cls = c02.expect(("iana", zn), start_wall, 1, False)
    if exp[0] != "value":
        return
    u = exp[1]
    prov = c["prov"]
    x = gen.mk(zn, u)
    M.quiet += 1
    try:
        if prov == "conv":
            x = P.DateTime(*us_to_fields(u), tzinfo=P.UTC).in_tz(zn)
        elif prov in ("fold0", "fold1"):
            x = P.DateTime(*fields(x), tzinfo=x.tzinfo, fold=int(prov[-1])) if cls == "once" else x
    finally:
        M.quiet -= 1
    M.sample(c)
    wd = WD(target.weekday())
    M.cls("trans", zn, c["ti"], c["back"], prov)
    for fn in (lambda: x.next(wd), lambda: x.next(wd, keep_time=True)):
        try:
            fn()
        except (OverflowError, ValueError):
            pass
    # from after the date, going back
    exp2, cls2 = c02.expect(("iana", zn), tw + c["back"] * DAY_US + c["tod"], 1, False)
    if exp2[0] == "value":
        y = gen.mk(zn, exp2[1])
        y.previous(wd)
        y.previous(wd, keep_time=True)
    # first_of / last_of / nth_of reaching the affected date from within its month
    for unit in ("month", "quarter", "year"):
        first, lastd = unit_bounds(target.year, target.month, unit)
        n = (target.toordinal() - nth_date(first, lastd, target.weekday(), 1).toordinal()) // 7 + 1
        mid_wall = (dt.date(target.year, target.month, 15).toordinal() - ORD0) * DAY_US + c["tod"]
        exp3, cls3 = c02.expect(("iana", zn), mid_wall, 1, False)
        if exp3[0] != "value":
            continue
        m = gen.mk(zn, exp3[1])
        if prov == "conv":
            M.quiet += 1
            try:
                m = P.DateTime(*us_to_fields(exp3[1]), tzinfo=P.UTC).in_tz(zn)
            finally:
                M.quiet -= 1
        try:
            m.nth_of(unit, n, wd)
            if n == 1:
                m.first_of(unit, wd)
            if target == last_date(first, lastd, target.weekday()):
                m.last_of(unit, wd)
            if target == first:
                m.first_of(unit)
            if target == lastd:
                m.last_of(unit)
        except Exception:  # noqa: BLE001 - the contracts have judged whatever was raised
            pass
