"""C05 — an interval's length is the exact elapsed time between its endpoints.

Contract on Interval.__new__ (every Interval built anywhere: b - a, diff(), interval(),
abs(), parser, diff_for_humans ...) and Interval.__init__ (in_seconds/minutes/hours of the
finished object).  Oracle: integer-us difference of the endpoint instants, computed from
each endpoint's own fields and utcoffset().  Boundary checkers: swap negates, native
operand gives the native length (where native subtraction is instant based).
"""
from __future__ import annotations

import datetime as dt
import zoneinfo

from pvmon import gen
from pvmon.common import DAY_US, MAX_US, MIN_US, US, fields, inst, td_us, us_to_fields, wall_us
from pvmon.oracle import judge, tzdb

PLAN = {
    "quick": {"configs": ["ext1", "ext0"], "nshards": 12, "nshards_ext0": 4, "timeout": 900},
    "thorough": {"configs": ["ext1", "ext0"], "nshards": 16, "timeout": 3400, "suite": ["ext1"]},
}
DECIDING = ["new.length", "init.in_units", "swap", "native_operand", "magnitude", "concurrent"]
FLOORS = {"quick": {"new.length": 100000, "init.in_units": 100000, "swap": 20000, "native_operand": 5000,
                    "magnitude": 20000, "concurrent": 20000},
          "thorough": {"new.length": 10**6, "init.in_units": 10**6, "swap": 200000, "native_operand": 50000,
                       "magnitude": 200000, "concurrent": 60000}}
REQUIRED_HOOKS = ["Interval.__new__", "Interval.__init__"]
TECHNIQUE = "runtime contract on Interval construction (every interval built anywhere) against the integer-microsecond difference of the endpoint instants; shared objects used by six threads at once (1 us switch interval), every outcome compared with the single-threaded, contract-judged one"
LEVEL_TEXT = ("every Interval constructed during the workloads (operators, diff, interval(), abs, native operands) is judged "
              "against the exact integer-us difference of the endpoints' own instants; pairs are placed around every "
              "transition kind and in both folds; held on what was observed")
RULE = ("ordered pairs: endpoints from transition probes of every zone (both passes of every overlap, both sides of gaps), same "
        "tz object / same name / different zones, random pairs over years 1..9999, Date pairs, naive pairs, native operands "
        "on either side; distinct = (zone a, zone b, transition index, probe a, probe b, provenance, op); non-trivial = an "
        "endpoint within one gap-length of a transition or zones differ")
ASSUMPTIONS = ["trusted base: CPython datetime/zoneinfo, tz files",
               "spans >= 2^33 s are allowed 64 us of error as the statement says",
               "native-subtraction agreement only where native subtraction is instant-based (distinct tzinfo objects or naive)"]

LIM = 2**33 * US


def _endpoint_us(x):
    if isinstance(x, dt.datetime):
        if x.tzinfo is not None and x.utcoffset() is not None:
            return "aware", inst(x)
        return "naive", wall_us(x)
    return "date", wall_us(x)


def _trunc(v, q):
    return abs(v) // q * (1 if v >= 0 else -1)


def setup(M):
    import pendulum
    from pendulum.interval import Interval

    M.pendulum = pendulum

    def expected(start, end, absolute):
        ka, ua = _endpoint_us(start)
        kb, ub = _endpoint_us(end)
        if ka != kb:
            return None
        e = ub - ua
        return abs(e) if absolute else e

    def new_post(ret, a, k, snap):
        start, end = a[1], a[2]
        absolute = a[3] if len(a) > 3 else k.get("absolute", False)
        e = expected(start, end, absolute)
        if e is None:
            return
        got = td_us(ret)
        tol = 0 if abs(e) < LIM else 64
        sig = "C05/length"
        if abs(got - e) > tol and absolute and got == -e:
            sig = "C05/absolute:negative-magnitude" + (":same-tzinfo-fold" if _same_tz_fold(start, end) else "")
        elif abs(got - e) > tol:
            sig = "C05/length" + (":same-tzinfo" if getattr(start, "tzinfo", None) is getattr(end, "tzinfo", 0) else "")
        M.check("new.length", abs(got - e) <= tol, sig, "interval length is not the elapsed time between the endpoints",
                start=_d(start), end=_d(end), absolute=absolute, got_us=got, expected_us=e)

    M.contract(Interval, "__new__", post=new_post, label="Interval.__new__")

    def init_post(ret, a, k, snap):
        self = a[0]
        start, end = a[1], a[2]
        absolute = a[3] if len(a) > 3 else k.get("absolute", False)
        e = expected(start, end, absolute)
        if e is None or abs(e) >= LIM:
            return
        got = (self.in_seconds(), self.in_minutes(), self.in_hours())
        exp = (_trunc(e, US), _trunc(e, 60 * US), _trunc(e, 3600 * US))
        fold = absolute and _same_tz_fold(start, end)
        M.check("init.in_units", got == exp, "C05/in_units" + (":absolute:same-tzinfo-fold" if fold else ""), "in_seconds/minutes/hours are not the truncated length",
                start=_d(start), end=_d(end), absolute=absolute, got=got, expected=exp)

    M.contract(Interval, "__init__", post=init_post, label="Interval.__init__")
    if M.spec.get("suite"):
        return
    n = 0
    for z in gen.shard_zones(M):
        n += tzdb.Z.get(z).selfcheck()
    M.count("oracle_selfcheck_points", n)


def _same_tz_fold(a, b):
    """same tzinfo object and wall-clock order opposite to instant order"""
    if not (isinstance(a, dt.datetime) and isinstance(b, dt.datetime)):
        return False
    if a.tzinfo is None or a.tzinfo is not b.tzinfo:
        return False
    return (wall_us(a) > wall_us(b)) != (inst(a) > inst(b)) or (wall_us(a) == wall_us(b)) != (inst(a) == inst(b))


def _d(x):
    if isinstance(x, dt.datetime):
        return f"{type(x).__name__}({x.isoformat()} fold={x.fold} tz={type(x.tzinfo).__name__}:{getattr(x.tzinfo, 'key', getattr(x.tzinfo, 'name', None))})"
    return repr(x)


# ---------------------------------------------------------------- workload
HOWS = ("raw", "raw_other_obj", "ctor", "zi_instance", "raw_zi", "native_zi", "native_fixed")


def _pick(r, zn):
    z = tzdb.Z.get(zn)
    if z.trans and r.random() < 0.85:
        i = r.randrange(len(z.trans))
        t, ob, oa, _ = z.trans[i]
        g = abs(oa - ob)
        d = r.choice((-g - 1, -g, -1, 0, 1, g - 1, g, g + 1, -g // 2, g // 2, r.randrange(-10**5, 10**5)))
        return (t + d) * US + r.choice((0, 1, 999999, r.randrange(US))), i, d
    return gen.random_instant(r), -1, 0


def cases(M):
    r = gen.rng(M)
    if M.shard % 2 == 0:
        yield {"k": "threads", "seed": r.randrange(1 << 30), "n": 6000 if M.tier == "thorough" else 2000,
               "zones": ["Europe/Paris", "America/New_York", "UTC", ("Australia/Lord_Howe", "Asia/Tehran", "Europe/London", "America/St_Johns")[M.shard // 2 % 4]]}
    thorough = M.tier == "thorough"
    names = gen.all_zones()
    if M.config == "ext0" and not thorough:
        zones = gen.hostile(names)[M.shard::M.nshards]
    else:
        zones = gen.shard_zones(M, names)
    # systematic: every transition, pairs of probes on the same zone (incl. both passes of each overlap)
    for zn in zones:
        z = tzdb.Z.get(zn)
        for i, (t, ob, oa, _) in enumerate(z.trans):
            pr = [(pk, u) for pk, u in gen.probe_instants(t, ob, oa) if gen.ok_instant(u)]
            g = abs(oa - ob) * US
            pr += [("mid-", t * US - g // 2), ("mid+", t * US + g // 2)] if gen.ok_instant(t * US) else []
            k = 8 if thorough else 3
            for _ in range(k):
                (pa, ua), (pb, ub) = r.choice(pr), r.choice(pr)
                yield {"za": zn, "zb": zn, "ua": ua, "ub": ub, "ha": r.choice(HOWS[:5]), "hb": r.choice(HOWS), "ti": i,
                       "pa": pa, "pb": pb}
            zb = r.choice(names)
            ub, j, d = _pick(r, zb)
            (pa, ua) = r.choice(pr)
            if gen.ok_instant(ub):
                yield {"za": zn, "zb": zb, "ua": ua, "ub": ub, "ha": r.choice(HOWS[:5]), "hb": r.choice(HOWS), "ti": i,
                       "pa": pa, "pb": f"o{j}:{d}"}
    for j in range(300000 if thorough else 30000):
        za = r.choice(names)
        zb = r.choice((za, za, r.choice(names)))
        ua, ia, da = _pick(r, za)
        ub = r.choice((_pick(r, zb)[0], ua + r.randrange(-10**4, 10**4) * US + r.randrange(US)))
        if not (gen.ok_instant(ua) and gen.ok_instant(ub)):
            continue
        yield {"za": za, "zb": zb, "ua": ua, "ub": ub, "ha": r.choice(HOWS[:5]), "hb": r.choice(HOWS), "ti": ia, "pa": str(da),
               "pb": "r"}
    # an endpoint built directly by the class constructor on a wall time its zone skips (either fold): it denotes
    # wall - utcoffset(fold), and every form of the difference has to honour that
    for zn in (zones if thorough else zones[:8]):
        z = tzdb.Z.get(zn)
        gaps = [(t, ob, oa) for (t, ob, oa, _) in z.trans if oa > ob and gen.ok_instant(t * US)]
        for t, ob, oa in gaps[-(6 if thorough else 2):]:
            yield {"k": "rawgap", "z": zn, "w": (t + ob) * US + r.randrange((oa - ob) * US), "f": r.randrange(2),
                   "ua": t * US + r.choice((-1, 1)) * r.randrange(1, 10**5) * US + r.randrange(US)}
    # the two ends of the representable range (years 1 and 9999), where the UTC instant itself is not representable
    for j in range(6000 if thorough else 600):
        zn = r.choice(names)
        lo = j % 2 == 0
        wa = (MIN_US + r.randrange(0, 2 * DAY_US)) if lo else (MAX_US - r.randrange(0, 2 * DAY_US))
        wb = (MIN_US + r.randrange(0, 3 * DAY_US)) if lo else (MAX_US - r.randrange(0, 3 * DAY_US))
        yield {"k": "edge", "z": zn, "wa": wa, "wb": wb, "same": True, "zb": zn}
    for j in range(40000 if thorough else 4000):
        yield {"k": "plain", "ua": gen.random_instant(r), "ub": gen.random_instant(r) if j % 2 else None, "d": r.randrange(-10**6, 10**6),
               "kind": ("naive", "date", "fixed", "naive_native")[j % 4], "oa": r.randrange(-86399, 86400), "ob": r.randrange(-1439, 1440) * 60}


def _mk(M, zn, u, how):
    P = M.pendulum
    f, off, fold = tzdb.Z.get(zn).render(u)
    if how == "raw":
        return P.DateTime(*f, tzinfo=P.timezone(zn), fold=fold)
    if how == "raw_other_obj":
        return P.DateTime(*f, tzinfo=P.tz.timezone.Timezone.__new__(P.tz.timezone.Timezone, zn), fold=fold)
    if how == "ctor":
        return P.datetime(*f, tz=zn, fold=fold)
    if how == "raw_zi":
        # a pendulum DateTime carrying the standard library's (cached, hence shared) ZoneInfo object - what
        # DateTime(..., tzinfo=ZoneInfo(..)) and x.astimezone(ZoneInfo(..)) produce
        return P.DateTime(*f, tzinfo=zoneinfo.ZoneInfo(zn), fold=fold)
    nat = dt.datetime(*f, tzinfo=zoneinfo.ZoneInfo(zn), fold=fold)
    if how == "zi_instance":
        return P.instance(nat)
    if how == "native_zi":
        return nat
    return dt.datetime(*f, tzinfo=dt.timezone(dt.timedelta(seconds=off)))


def _len_ok(iv, e):
    return abs(td_us(iv) - e) <= (0 if abs(e) < LIM else 64)


def _threads(M, c):
    """intervals between shared endpoint objects of a few zones built by six threads at once (fresh endpoints per chunk):
    lengths and unit counts must be what a single thread gets (that reference call is judged by the ordinary contracts)"""
    import random

    from pvmon import conc

    P = M.pendulum
    r = random.Random(c["seed"])
    zs = c["zones"]
    items = []
    for _ in range(c["n"]):
        za, zb = r.choice(zs), r.choice(zs)
        ua, ub = gen.modern_instant(r), gen.modern_instant(r)
        if r.random() < 0.5:
            z = tzdb.Z.get(za)
            if z.trans:
                t = z.trans[r.randrange(len(z.trans))][0] * US
                if gen.ok_instant(t, 800):
                    ua, ub = t + r.randrange(-7200 * US, 7200 * US), t + r.randrange(-7200 * US, 7200 * US)
                    zb = za if r.random() < 0.7 else zb
        items.append((gen.mk(za, ua), gen.mk(zb, ub)))

    def one(it):
        a, b = it
        iv = b - a
        return (td_us(iv), iv.in_seconds(), iv.in_minutes(), iv.in_hours(), td_us(a.diff(b, False)), td_us(a.diff(b)), td_us(P.interval(a, b)),
                td_us(abs(a - b)), iv.years, iv.months, iv.remaining_days, iv.hours, iv.minutes, iv.remaining_seconds)

    conc.differential(M, items, one, "C05/concurrent", show=lambda it: f"{it[0].isoformat()}[{it[0].timezone_name}] .. {it[1].isoformat()}[{it[1].timezone_name}]")
    M.cls("threads", tuple(zs))
    M.sample(c)


def run(M, c):
    P = M.pendulum
    if c.get("k") == "threads":
        return _threads(M, c)
    if c.get("k") == "plain":
        return _run_plain(M, c)
    if c.get("k") == "edge":
        return _run_edge(M, c)
    if c.get("k") == "rawgap":
        from pvmon.common import us_to_fields

        g = P.DateTime(*us_to_fields(c["w"]), tzinfo=P.timezone(c["z"]), fold=c["f"])
        a = gen.mk(c["z"], c["ua"])
        e = inst(g) - inst(a)                      # the instants the two objects themselves denote
        M.cls("rawgap", c["z"], c["f"], e > 0)
        M.sample(c)
        forms = {"g - a": lambda: g - a, "a - g": lambda: a - g, "a.diff(g, False)": lambda: a.diff(g, False), "g.diff(a, False)": lambda: g.diff(a, False),
                 "interval(a, g)": lambda: P.interval(a, g), "interval(g, a)": lambda: P.interval(g, a)}
        for nm, fn in forms.items():
            sign = -1 if nm in ("a - g", "g.diff(a, False)", "interval(g, a)") else 1
            try:
                v = fn()
            except Exception as ex:  # noqa: BLE001
                M.check("length", False, f"C05/raw-gap-endpoint:raised-{type(ex).__name__}", "difference with an endpoint on a skipped wall time raised", form=nm,
                        a=_d(a), g=_d(g))
                continue
            M.check("length", _len_ok(v, sign * e), "C05/raw-gap-endpoint:length", "difference with an endpoint built on a skipped wall time is not the elapsed time "
                    "between the instants the objects denote", form=nm, a=_d(a), g=_d(g), got=td_us(v), expected=sign * e)
        return
    a = _mk(M, c["za"], c["ua"], c["ha"])
    b = _mk(M, c["zb"], c["ub"], c["hb"])
    if inst(a) != c["ua"] or inst(b) != c["ub"]:
        M.count("endpoint_not_at_requested_instant")   # constructor path normalised differently: judged on own instants
    ea = inst(b) - inst(a)
    near = c["pa"] not in ("r",) or c["za"] != c["zb"]
    if near:
        M.cls(c["za"], c["zb"], c["ti"], c["pa"], c["pb"], c["ha"], c["hb"])
    M.sample(c)
    native_b = not isinstance(b, P.DateTime)
    # signed forms (Interval.__new__ contract judges each)
    ivs = []
    if native_b:
        r1 = b - a          # DateTime.__rsub__
        r2 = a - b          # DateTime.__sub__ with a native operand
        M.check("swap", td_us(r1) == -td_us(r2) or not _len_ok(r1, ea), "C05/swap", "swapping endpoints does not negate",
                a=_d(a), b=_d(b), ba=td_us(r1), ab=td_us(r2))
        if a.tzinfo is not b.tzinfo:
            twin = dt.datetime(*fields(a), tzinfo=zoneinfo.ZoneInfo.no_cache(c["za"]), fold=a.fold)
            nat = twin - b
            M.check("native_operand", _len_ok(r2, td_us(nat)), "C05/native-operand", "pendulum - native differs from native - native",
                    a=_d(a), b=_d(b), got=td_us(r2), native=td_us(nat))
        r3 = a.diff(b, False)
        r4 = a.diff(b)
        # (a native operand may share the very tzinfo object of a DateTime built with tzinfo=ZoneInfo(..): the absolute form
        #  then falls under the recorded wall-clock-ordering finding)
        foldn = _len_ok(r3, ea) and not _len_ok(r4, abs(ea)) and _same_tz_fold(a, b)
        M.check("magnitude", _len_ok(r4, abs(ea)) and _len_ok(r3, ea), "C05/magnitude:same-tzinfo-fold" if foldn else "C05/diff-native",
                "diff() with a native operand", a=_d(a), b=_d(b), got=[td_us(r3), td_us(r4)], expected=ea)
        return
    r1 = b - a
    r2 = a - b
    M.check("swap", td_us(r1) == -td_us(r2), "C05/swap", "swapping endpoints does not negate", a=_d(a), b=_d(b),
            ba=td_us(r1), ab=td_us(r2))
    r3 = a.diff(b, False)
    r4 = P.interval(a, b)
    r5 = a.diff(b)                       # default: magnitude
    r6 = abs(r1)
    r7 = P.interval(a, b, absolute=True)
    ok = all(td_us(x) >= 0 for x in (r5, r6, r7)) and td_us(r3) == td_us(r4) == td_us(r1)
    fold = _same_tz_fold(a, b)
    M.check("magnitude", ok, "C05/magnitude" + (":same-tzinfo-fold" if fold else ""),
            "abs()/absolute=True/diff() default are not the magnitude", a=_d(a), b=_d(b),
            got=[td_us(x) for x in (r1, r3, r4, r5, r6, r7)], expected=ea)


def _run_plain(M, c):
    P = M.pendulum
    ua = c["ua"]
    ub = c["ub"] if c["ub"] is not None else ua + c["d"] * US + c["d"] % 1000
    if not (MIN_US < ub < MAX_US):
        return
    kind = c["kind"]
    M.cls("plain", kind, (ub > ua), abs(ub - ua) >= LIM)
    if kind == "naive":
        a, b = P.DateTime(*us_to_fields(ua)), P.DateTime(*us_to_fields(ub))
    elif kind == "naive_native":
        a, b = P.DateTime(*us_to_fields(ua)), dt.datetime(*us_to_fields(ub))
    elif kind == "date":
        a, b = P.Date(*us_to_fields(ua)[:3]), P.Date(*us_to_fields(ub)[:3])
    else:
        if not (gen.ok_instant(ua) and gen.ok_instant(ub)):
            return
        FT = P.tz.timezone.FixedTimezone
        a = P.DateTime(*us_to_fields(ua + c["oa"] * US), tzinfo=FT(c["oa"]))
        b = P.DateTime(*us_to_fields(ub + c["ob"] * US), tzinfo=FT(c["ob"]))
    r1, r2 = b - a, a - b
    M.check("swap", _len_ok(r1, -td_us(r2)), "C05/swap", "swapping endpoints does not negate", a=_d(a), b=_d(b))
    if kind == "naive_native":
        # diff() is specified for DateTime operands; a native naive operand is only used with the operators
        nat = dt.datetime(*fields(b)) - dt.datetime(*fields(a))
        M.check("native_operand", _len_ok(r1, td_us(nat)), "C05/native-operand:naive", "differs from native subtraction",
                a=_d(a), b=_d(b), got=td_us(r1), native=td_us(nat))
        return
    r5 = a.diff(b)
    r3 = a.diff(b, False)
    M.check("magnitude", td_us(r5) >= 0 and td_us(r5) == abs(td_us(r3)), "C05/magnitude:plain", "diff() default is not the magnitude",
            a=_d(a), b=_d(b), got=[td_us(r5), td_us(r3)])
    if kind in ("naive", "naive_native"):
        nat = dt.datetime(*fields(b)) - dt.datetime(*fields(a))
        M.check("native_operand", _len_ok(r1, td_us(nat)), "C05/native-operand:naive", "differs from native subtraction",
                a=_d(a), b=_d(b), got=td_us(r1), native=td_us(nat))


def _run_edge(M, c):
    """endpoints in the first/last days of the representable range, built from wall fields with the raw constructor"""
    import zoneinfo as _zi

    P = M.pendulum
    za, zb = c["z"], (c["z"] if c["same"] else c["zb"])
    try:
        a = P.DateTime(*us_to_fields(c["wa"]), tzinfo=P.timezone(za))
        b = P.DateTime(*us_to_fields(c["wb"]), tzinfo=P.timezone(zb))
        oa, ob = a.utcoffset(), b.utcoffset()
    except (OverflowError, ValueError):
        return
    # exact expected length from walls and offsets (no UTC datetime needed)
    e = (c["wb"] - td_us(ob)) - (c["wa"] - td_us(oa))
    M.cls("edge", c["wa"] < 0, c["same"], za)
    M.current = dict(c)
    for name, fn in (("b-a", lambda: b - a), ("diff", lambda: a.diff(b, False)), ("interval", lambda: P.interval(a, b))):
        try:
            iv = fn()
        except Exception as ex:  # noqa: BLE001
            M.check("new.length", False, f"C05/range-edge:raised-{type(ex).__name__}:" + ("same-tzinfo" if c["same"] else "different-zones"),
                    "subtracting two valid DateTimes near the end of the representable range raised", a=_d(a), b=_d(b), op=name, exc=repr(ex)[:120])
            continue
        M.check("new.length", _len_ok(iv, e), "C05/range-edge:length", "interval length wrong near the end of the representable range", a=_d(a), b=_d(b),
                got=td_us(iv), expected=e)
