"""C07 — ISO 8601 / RFC 3339 date and time strings parse to the value they denote.

Constructive oracle (oracle/iso.py renders a value, so the expected parse result is
known), judged at three hooks: both parse_iso8601 implementations called directly on the
same string (each vs the expectation, and vs each other), and pendulum.parse() (default
and exact=True).  Contracts on the parser entry points judge every call whose argument is
the string of the case being run (so internal calls are judged as well).  Rejection
oracle from the calendar.  Backend agreement of the full parse() path by log join.
"""
from __future__ import annotations

import datetime as dt
import sys

from pvmon import gen
from pvmon.common import US, fields, off_us, us_to_fields
from pvmon.oracle import iso

PLAN = {
    "quick": {"configs": ["ext1", "ext0"], "nshards": 8, "timeout": 900, "week_start": [0, 6, 0, 5, 2]},
    "thorough": {"configs": ["ext1", "ext0"], "nshards": 16, "timeout": 3400, "suite": ["ext1"], "week_start": [0, 6, 0, 5, 2]},
}
DECIDING = ["py.direct", "rs.direct", "backend_eq", "parse", "parse.exact", "parse.tz", "reject", "roundtrip", "hook.parse_iso8601"]
FLOORS = {"quick": {"py.direct": 300000, "rs.direct": 300000, "backend_eq": 300000, "parse": 100000, "parse.exact": 50000, "parse.tz": 50000,
                    "reject": 5000, "roundtrip": 20000, "hook.parse_iso8601": 100000},
          "thorough": {"py.direct": 2 * 10**7, "rs.direct": 2 * 10**7, "backend_eq": 2 * 10**7, "parse": 2 * 10**6, "parse.exact": 10**6,
                       "reject": 50000, "roundtrip": 200000, "hook.parse_iso8601": 2 * 10**6}}
REQUIRED_HOOKS = ["pendulum.parse"]
EXHAUSTIVE = {"quick": False, "thorough": True}
TECHNIQUE = "constructive render->parse->compare oracle at three hooks (both parse_iso8601 implementations and pendulum.parse), rejection oracle from the calendar, backend-agreement join; range-edge workloads (first/last representable day x offsets)"
LEVEL_TEXT = ("every generated well-formed string is parsed by the compiled parser, the pure-Python parser and pendulum.parse (default and "
              "exact) and each result is compared with the value the string was rendered from; the thorough tier renders every date "
              "1583-01-01..9999-12-31 in 8 date forms (exhaustive for that sub-domain); impossible dates/weeks/ordinals must be rejected")
RULE = ("dates: thorough every date 1583..9999 x 8 forms; quick every date of 12 years + the first and last day of every month of every "
        "year + seeded days; date-times: date forms x time forms (basic with basic, extended with extended) x fraction length 1..9 x '.'/',' "
        "x offsets Z/+-hh/+-hhmm/+-hh:mm within +-23:59 x 'T'/' '; time-only hh:mm[:ss[.f]] and Thhmmss; YYYY-MM and YYYY at parse() level; "
        "rejection set per year; round trips of isoformat/str/to_iso8601/to_rfc3339/to_atom/to_w3c; distinct = (form, last-day-of-month?, "
        "last-day-of-year?, week-year != calendar year?, fraction length, offset form, separator); every case is non-trivial")
ASSUMPTIONS = ["trusted base: CPython datetime (isocalendar, ordinals)",
               "excluded: bare hhmmss without T, mixed basic/extended, 24:00:00, leap seconds, years < 1583 for week/ordinal forms, fractions > 9 digits"]

NOW = dt.datetime(2021, 3, 4, 5, 6, 7)
TZ_OPTS = ("Europe/Paris", "America/New_York", "Asia/Kolkata", "UTC", "Pacific/Apia")


def _norm(r):
    """parser result -> (kind, fields, offset_s|None)"""
    if isinstance(r, dt.datetime):
        o = r.utcoffset()
        return ("datetime", fields(r), None if o is None else o.days * 86400 + o.seconds)
    if isinstance(r, dt.date):
        return ("date", fields(r), None)
    if isinstance(r, dt.time):
        o = r.utcoffset()
        return ("time", fields(r), None if o is None else o.days * 86400 + o.seconds)
    return ("other", repr(r), None)


def _exc(f, *a, **k):
    try:
        return ("ok", f(*a, **k))
    except ValueError as e:
        return ("ValueError", type(e).__name__)
    except Exception as e:  # noqa: BLE001
        return ("exc", type(e).__name__)


def setup(M):
    import pendulum
    import pendulum.parsing.iso8601 as PYI

    M.pendulum = pendulum
    M.py = PYI.parse_iso8601
    try:
        import pendulum._pendulum as RS

        M.rs = RS.parse_iso8601
    except ImportError:
        M.rs = None
    M.expect = None      # (string, expected norm, tags) of the string being judged

    def hook(tag):
        def post(ret, a, k, snap):
            e = M.expect
            if e is None or not a or a[0] != e[0] or e[1] is None:
                return
            if e[1][0] == "date" and len(e[0]) in (4, 7) and tag == "rs":
                return
            M.check("hook.parse_iso8601", _norm(ret) == e[1], f"C07/hook-{tag}:{e[2]}", "parse_iso8601 result differs from the value the string denotes",
                    s=e[0], got=_norm(ret), expected=e[1])
        return post

    for modname, attr, tag in (("pendulum.parsing.iso8601", "parse_iso8601", "py"), ("pendulum._pendulum", "parse_iso8601", "rs"),
                               ("pendulum.parsing", "parse_iso8601", "bound")):
        mod = sys.modules.get(modname)
        if mod is not None and hasattr(mod, attr):
            M.contract(mod, attr, post=hook(tag), label=f"{tag}.parse_iso8601")
    M.py = sys.modules["pendulum.parsing.iso8601"].parse_iso8601
    if M.rs is not None:
        M.rs = sys.modules["pendulum._pendulum"].parse_iso8601

    def parse_count(ret, a, k, snap):
        M.count("pendulum.parse.calls")

    M.contract(pendulum, "parse", post=parse_count, label="pendulum.parse")


# ---------------------------------------------------------------- judging one string
def judge(M, s, exp, tag, full=True, direct=True, stag=None, tzopt=True):
    """exp = (kind, fields, off) the string denotes; tag = fine class key, stag = coarse mechanism tag for signatures"""
    ftag, tag = tag, (stag or tag)
    P = M.pendulum
    M.expect = (s, exp, tag)
    saved = M.current
    M.current = {"k": "one", "s": s, "exp": [exp[0], list(exp[1]), exp[2]], "tag": ftag, "stag": tag}
    try:
        res = {}
        if direct:
            for name, f in (("py", M.py), ("rs", M.rs)):
                if f is None:
                    continue
                if name == "rs" and exp[0] == "date" and len(s) == 4:
                    continue    # the compiled parser leaves bare YYYY to the next stage of parse()
                r = _exc(f, s)
                got = _norm(r[1]) if r[0] == "ok" else r
                res[name] = got
                M.check(f"{name}.direct", got == exp, f"C07/{name}-direct:{tag}" + ("" if r[0] == "ok" else f":raised-{r[1]}"),
                        f"{name} parse_iso8601 does not return the denoted value", s=s, got=got, expected=exp)
            if len(res) == 2:
                M.check("backend_eq", res["py"] == res["rs"], f"C07/backend-mismatch:{tag}", "compiled and pure-Python parser differ", s=s,
                        py=res["py"], rs=res["rs"])
        if full:
            # pendulum.parse(): default normalisation and exact=True
            r = _exc(P.parse, s, now=NOW)
            if exp[0] == "date":
                want = ("DateTime", exp[1] + (0, 0, 0, 0), 0, "UTC")
            elif exp[0] == "time":
                want = ("DateTime", (NOW.year, NOW.month, NOW.day) + exp[1], 0, "UTC")
            else:
                want = ("DateTime", exp[1], 0 if exp[2] is None else exp[2], "UTC" if exp[2] is None else None)
            if r[0] == "ok":
                v = r[1]
                got = (type(v).__name__, fields(v), off_us(v) // US if v.tzinfo else None, v.timezone_name if want[3] else None)
            else:
                got = r
            M.check("parse", got == want, f"C07/parse:{tag}" + ("" if r[0] == "ok" else f":raised-{r[1]}"),
                    "pendulum.parse() does not return the denoted value", s=s, got=got, expected=want)
            M.digest(s, repr(got))
            if tzopt and exp[0] in ("datetime", "date"):
                # tz= option: an explicit offset in the text wins, a text without offset is read in that zone
                zone = TZ_OPTS[(len(s) + exp[1][2]) % len(TZ_OPTS)]
                r = _exc(P.parse, s, tz=zone)
                f7 = exp[1] + (0, 0, 0, 0) if exp[0] == "date" else exp[1]
                if r[0] != "ok":
                    M.check("parse.tz", False, f"C07/parse-tz:{tag}:raised-{r[1]}", "parse(tz=) raised on a well-formed string", s=s, tz=zone, got=r)
                else:
                    v = r[1]
                    if exp[2] is not None:
                        ok = fields(v) == f7 and off_us(v) // US == exp[2]
                        M.check("parse.tz", ok, "C07/parse-tz:explicit-offset-not-kept" + (":zero-offset" if exp[2] == 0 else ""),
                                "parse(tz=) changed a value that carries its own offset", s=s, tz=zone, got=[list(fields(v)), off_us(v) // US],
                                expected=[list(f7), exp[2]])
                    else:
                        from pvmon.common import wall_us as _w
                        from pvmon.oracle import tzdb as _tz

                        cls_ = _tz.Z.get(zone).classify_wall(_w(dt.datetime(*f7)))[0] if 2 < f7[0] < 9998 else "skip"
                        if cls_ == "once":
                            M.check("parse.tz", fields(v) == f7 and v.timezone_name == zone, "C07/parse-tz:naive-not-in-zone",
                                    "parse(tz=) did not read a text without offset in the given zone", s=s, tz=zone,
                                    got=[list(fields(v)), v.timezone_name])
            r = _exc(P.parse, s, exact=True)
            wantx = {"date": "Date", "time": "Time", "datetime": "DateTime"}[exp[0]]
            if r[0] == "ok":
                v = r[1]
                got = (type(v).__name__, fields(v), (off_us(v) // US if v.tzinfo else None) if exp[0] == "datetime" and exp[2] is not None else None)
            else:
                got = r
            M.check("parse.exact", got == (wantx, exp[1], exp[2] if exp[0] == "datetime" else None), f"C07/parse-exact:{tag}",
                    "parse(exact=True) does not return the narrowest type/value", s=s, got=got, expected=(wantx, exp[1], exp[2]))
    finally:
        M.expect = None
        M.current = saved


def judge_reject(M, s, tag):
    P = M.pendulum
    saved = M.current
    M.current = {"k": "rej", "s": s, "tag": tag}
    try:
        for name, f in (("py", M.py), ("rs", M.rs), ("parse", P.parse)):
            if f is None:
                continue
            r = _exc(f, s)
            ok = r[0] == "ValueError"
            got = _norm(r[1]) if r[0] == "ok" else r
            M.check("reject", ok, f"C07/accepted-impossible:{tag.split('-basic')[0].split('-noday')[0]}:{name}" if r[0] == "ok" else f"C07/reject-raised-{r[1]}:{name}",
                    "an impossible date/week/ordinal/time was accepted (or a non-ValueError was raised)", s=s, got=got)
    finally:
        M.current = saved


# ---------------------------------------------------------------- workload
QUICK_YEARS = (1583, 1600, 1900, 1999, 2000, 2004, 2015, 2020, 2021, 2026, 2100, 9999)
OFF_FORMS = ("Z", "hh", "hhmm", "hh:mm")


def cases(M):
    r = gen.rng(M)
    thorough = M.tier == "thorough"
    o_lo, o_hi = dt.date(1583, 1, 1).toordinal(), dt.date(9999, 12, 31).toordinal()
    if thorough:
        nchunk = 512
        step = (o_hi - o_lo) // nchunk + 1
        for ci in range(nchunk):
            if ci % M.nshards == M.shard:
                yield {"k": "dates", "lo": o_lo + ci * step, "hi": min(o_hi, o_lo + (ci + 1) * step - 1), "mode": "all"}
    else:
        for i, y in enumerate(QUICK_YEARS):
            if i % M.nshards == M.shard:
                yield {"k": "dates", "lo": dt.date(y, 1, 1).toordinal(), "hi": dt.date(y, 12, 31).toordinal(), "mode": "all"}
        for ci in range(64):
            if ci % M.nshards == M.shard:
                y0 = 1583 + ci * 132
                yield {"k": "dates", "lo": dt.date(y0, 1, 1).toordinal(), "hi": dt.date(min(9999, y0 + 131), 12, 31).toordinal(), "mode": "monthends",
                       "phase": r.randrange(29)}
    n = (1000000 if thorough else 160000) // M.nshards
    yield {"k": "datetimes", "n": n, "seed": r.randrange(1 << 30)}
    yield {"k": "rejects", "years": [y for i, y in enumerate(range(1583, 10000, 1 if thorough else 7)) if i % M.nshards == M.shard]}
    yield {"k": "roundtrips", "n": (200000 if thorough else 24000) // M.nshards, "seed": r.randrange(1 << 30)}


def _tag_date(d, form):
    import calendar

    t = form
    if d.day == calendar.monthrange(d.year, d.month)[1]:
        t += ":month-end"
    if (d.month, d.day) == (12, 31):
        t += ":year-end"
    if form.startswith("week") and d.isocalendar()[0] != d.year:
        t += ":week-year-differs"
    return t


def run(M, c):
    import random

    P = M.pendulum
    k = c["k"]
    if k == "one":
        judge(M, c["s"], (c["exp"][0], tuple(c["exp"][1]), c["exp"][2]), c["tag"], stag=c.get("stag"))
        return
    if k == "rej":
        judge_reject(M, c["s"], c["tag"])
        return
    if k == "dates":
        n = 0
        for o in range(c["lo"], c["hi"] + 1):
            M.progress()
            d = dt.date.fromordinal(o)
            if c["mode"] == "monthends":
                nxt = dt.date.fromordinal(min(o + 1, dt.date.max.toordinal()))
                if not (d.day == 1 or nxt.day == 1 or (o + c["phase"]) % 29 == 0):
                    continue
            for form in iso.DATE_FORMS:
                s, ed = iso.render_date(d, form)
                if ed is None:
                    continue
                tag = _tag_date(d, form)
                judge(M, s, ("date", (ed.year, ed.month, ed.day), None), tag, full=(M.tier == "quick" or o % 8 == 0), tzopt=(o % 5 == 0))
                M.cls(tag, d.month, d.day if d.day > 27 else 0, d.year % 400 in (0, 100, 200, 300), d.year % 4 == 0)
            n += 1
        M.sample({"k": "dates", "from": str(dt.date.fromordinal(c["lo"])), "to": str(dt.date.fromordinal(c["hi"])), "mode": c["mode"], "dates": n})
        return
    if k == "datetimes":
        r = random.Random(c["seed"])
        o_lo, o_hi = dt.date(1583, 1, 1).toordinal(), dt.date(9999, 12, 31).toordinal()
        for i in range(c["n"]):
            M.progress()
            d = dt.date.fromordinal(r.randrange(o_lo, o_hi + 1))
            if i % 3 == 0:
                import calendar

                d = d.replace(day=calendar.monthrange(d.year, d.month)[1])
            H, Mi, S = r.randrange(24), r.randrange(60), r.randrange(60)
            if i % 10 == 0:
                H, Mi, S = r.choice(((0, 0, 0), (23, 59, 59), (12, 0, 0)))
            edge = i % 40 == 9
            if edge:
                # the last representable day with a negative offset: the value exists although its UTC equivalent does not
                d = dt.date(9999, 12, r.choice((31, 31, 30)))
                H, Mi, S = r.choice(((23, 59, 59), (23, 30, 0), (r.randrange(24), r.randrange(60), r.randrange(60))))
            form = r.choice(iso.DATE_FORMS[:6])
            basic = iso.is_basic(form)
            tform = r.choice(iso.TIME_FORMS_BASIC if basic else iso.TIME_FORMS_EXT)
            frac = None
            if tform in ("hh:mm:ss", "hhmmss") and r.random() < 0.6:
                nd = r.randrange(1, 10)
                frac = "".join(r.choice("0123456789") for _ in range(nd))
            fsep = r.choice(".,")
            ds, ed = iso.render_date(d, form)
            ts, tf = iso.render_time(H, Mi, S, tform, frac, fsep)
            offm = r.choice((None, 0, r.randrange(-1439, 1440), r.choice((-1439, 1439, 330, -210, 60, -60, -30, -1, -59, 1, 59))))
            if edge:
                offm = -r.choice((1, 30, 60, 330, 720, 1439, r.randrange(1, 1440)))
            oform = r.choice(OFF_FORMS)
            if offm is not None and oform == "Z" and offm != 0:
                oform = "hh:mm"
            if offm is not None and oform == "hh" and offm % 60:
                oform = "hhmm"
            if basic and oform == "hh:mm":
                oform = "hhmm"
            if not basic and oform == "hhmm":
                oform = "hh:mm"
            os_, off = iso.render_offset(offm, oform)
            sep = r.choice("T ") if not basic else "T"
            kind = i % 7
            if kind == 6:
                # time only
                if tform in ("hh", "hhmm"):
                    tform = "hh:mm"
                ts, tf = iso.render_time(H, Mi, S, "hh:mm:ss" if tform != "hh:mm" else "hh:mm", frac if tform != "hh:mm" else None, fsep)
                if tform == "hhmmss":
                    ts = "T" + ts.replace(":", "")
                s, exp = ts, ("time", tf, None)
                tag = "time-only:" + ("T-basic" if ts.startswith("T") else "ext") + (f":frac{len(frac)}" if frac and "." in ts or "," in ts else "")
            elif kind == 5:
                s = f"{d.year:04d}-{d.month:02d}"
                exp = ("date", (d.year, d.month, 1), None)
                tag = "year-month"
                if i % 2:
                    s = f"{d.year:04d}"
                    exp = ("date", (d.year, 1, 1), None)
                    tag = "year"
            else:
                s = ds + sep + ts + os_
                exp = ("datetime", (ed.year, ed.month, ed.day) + tf, off)
                tag = f"{form}:{tform}:{'frac%d' % len(frac) if frac and tform in ('hh:mm:ss', 'hhmmss') else 'nofrac'}:off-{oform if offm is not None else 'none'}:sep{'T' if sep == 'T' else 'space'}"
            M.cls(tag)
            import calendar as _cal

            stag = tag if kind >= 5 else (form + (":month-end" if d.day == _cal.monthrange(d.year, d.month)[1] else "") + ":with-time")
            if kind == 6:
                stag = "time-only"
            if edge and kind < 5:
                stag += ":last-day-utc-out-of-range"
            judge(M, s, exp, tag, full=True, direct=(tag not in ("year",)), stag=stag)
            if i < 3:
                M.sample({"k": "one", "s": s, "exp": exp, "tag": tag})
        return
    if k == "rejects":
        for y in c["years"]:
            M.progress()
            for s, tag in iso.invalid_dates(y):
                judge_reject(M, s, tag)
            M.cls("reject", y % 400, dt.date(y, 12, 28).isocalendar()[1])
        for s, tag in iso.invalid_times():
            M.progress()
            judge_reject(M, s, tag)
        return
    if k == "roundtrips":
        r = random.Random(c["seed"])
        for i in range(c["n"]):
            M.progress()
            u = gen.random_instant(r, 1583)
            if i % 2:
                u = u // US * US
            F = us_to_fields(u)
            if F[0] < 1000:
                continue
            offm = r.choice((0, 0, r.randrange(-1439, 1440), r.choice((-30, -1, -59, 30, 1439, -1439))))
            if i % 40 == 11:
                # "every DateTime in UTC or a fixed offset": the first / last representable day in an offset that puts the
                # UTC equivalent outside datetime's range
                late = i % 80 == 11
                F = ((9999, 12, 31) if late else (1, 1, 1)) + (((23, 59, 59) if late else (0, 0, 0)) if i % 3 else (r.randrange(24), r.randrange(60), r.randrange(60))) + (F[6],)
                offm = (-1 if late else 1) * r.choice((1, 60, 330, 1439, r.randrange(1, 1440)))
            tz = P.UTC if (offm == 0 and i % 3) else P.tz.timezone.FixedTimezone(offm * 60)
            x = P.DateTime(*F, tzinfo=tz)
            saved = M.current
            for name, f, to_second in (("isoformat", lambda v: v.isoformat(), False), ("str", str, False),
                                       ("to_iso8601_string", lambda v: v.to_iso8601_string(), False),
                                       ("to_rfc3339_string", lambda v: v.to_rfc3339_string(), False),
                                       ("to_atom_string", lambda v: v.to_atom_string(), True), ("to_w3c_string", lambda v: v.to_w3c_string(), True)):
                if F[0] < 1000 and to_second:
                    continue        # the format()-based renderers do not pad years below 1000 (outside the rendering domain)
                s = f(x)
                M.current = {"k": "rt", "fields": list(F), "offm": offm, "fmt": name, "s": s}
                rr = _exc(P.parse, s) if i % 3 else _exc(P.parse, s, tz=TZ_OPTS[i % len(TZ_OPTS)])
                want = (F[:6] + ((0,) if to_second else (F[6],)), offm * 60)
                got = (fields(rr[1]), off_us(rr[1]) // US) if rr[0] == "ok" and isinstance(rr[1], dt.datetime) else rr
                M.check("roundtrip", got == want, f"C07/roundtrip:{name}", "parse() does not invert the renderer", s=s, got=got, expected=want)
            M.current = saved
            if i % 50 == 0:
                M.cls("rt", offm == 0, F[6] == 0)
        return
