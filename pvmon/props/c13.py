"""C13 — ISO 8601 durations and intervals parse to their exact value.

Oracle: fractions.Fraction evaluation of the generated PnYnMnDTnHnMnS / PnW string
(years and months as written, the rest exact and rounded to the microsecond, a tie rounding either
way but identically in both backends); endpoint oracle for the three interval forms.  Hooks: both parse_iso8601
implementations called directly, pendulum.parse(); the `ovf` configuration runs the same
workload on the overflow-checked build of the extension (integer sanitizer: every wrap
reached becomes a PanicException with a Rust source location).
"""
from __future__ import annotations

import datetime as dt
import sys
from fractions import Fraction as F

from pvmon import gen
from pvmon.common import US, fields, inst, off_us, td_us, us_to_fields, wall_us
from pvmon.oracle import cal, tzdb

PLAN = {
    "quick": {"configs": ["ext1", "ext0", "ovf"], "nshards": 6, "nshards_ovf": 4, "timeout": 900, "decimal_prec": [28, 6, 28, 3], "week_start": [0, 6, 0, 3]},
    "thorough": {"configs": ["ext1", "ext0", "ovf"], "nshards": 12, "nshards_ovf": 8, "timeout": 3400, "suite": ["ext1"], "decimal_prec": [28, 6, 28, 3], "week_start": [0, 6, 0, 3]},
}
DECIDING = ["py.direct", "rs.direct", "parse", "reject", "too_large", "interval", "backend_eq"]
FLOORS = {"quick": {"py.direct": 100000, "rs.direct": 100000, "parse": 100000, "reject": 10000, "too_large": 3000, "interval": 20000,
                    "backend_eq": 100000},
          "thorough": {"py.direct": 10**6, "rs.direct": 10**6, "parse": 10**6, "reject": 100000, "too_large": 30000, "interval": 200000,
                       "backend_eq": 10**6}}
REQUIRED_HOOKS = ["pendulum.parse"]
TECHNIQUE = "exact rational (fractions.Fraction) oracle at three hooks (both parse_iso8601 implementations, pendulum.parse), endpoint oracle for intervals, overflow-checked extension build as integer sanitizer; same instants re-written with other offsets in one process (history workload); fractions of 1..400 digits with constructed exact and near half-microsecond ties, judged for backend equality too"
LEVEL_TEXT = ("every generated duration string is parsed by the compiled parser, the pure-Python parser and pendulum.parse and compared "
              "with the exact rational value (rounded to the microsecond); invalid orders/fractions must be rejected, unrepresentable "
              "numbers must be rejected rather than wrapped (also watched by the overflow-checked build); the three interval forms are "
              "compared with their written/derived endpoints; held on what was observed")
RULE = ("every subset of designators x integer components of 1..10 digits x fraction strings of 1..9 digits and, for a fifth of them, 10..400 digits (ties ...5, ...49, ...51 and constructed exact half-microsecond ties per unit) on "
        "each admissible unit x ','/'.'; PnW; invalid orders, fractional Y/M, fraction on a non-last component; numbers around 2^31, 2^32, "
        "1e10; intervals start/end, start/duration, duration/end in UTC, fixed offsets and tz=; distinct = (designator subset, digit-count "
        "class, unit carrying the fraction, fraction length, backend-independent); every case is non-trivial")
ASSUMPTIONS = ["trusted base: fractions.Fraction / integer arithmetic, CPython datetime",
               "a tie at exactly half a microsecond may round either way (but identically in both backends)", "designator-only strings (P, PT) are not durations and are not judged",
               "PnW combined with other designators is not in the statement's grammar and is not judged"]

UNIT_S = {"W": 7 * 86400, "D": 86400, "H": 3600, "M": 60, "S": 1}
MAXDAYS = 999999999


def _try(f, *a, **k):
    try:
        return ("ok", f(*a, **k))
    except ValueError as e:
        return ("ValueError", type(e).__name__)
    except Exception as e:  # noqa: BLE001
        return ("exc", type(e).__name__ + ":" + str(e)[:80])
    except BaseException as e:  # PanicException of the overflow-checked build derives from BaseException
        if type(e).__name__ in ("CaseTimeout", "KeyboardInterrupt", "SystemExit"):
            raise
        return ("panic", type(e).__name__ + ":" + str(e)[:120])


def dur_value(d):
    """parsed duration -> (years, months, rest_us)"""
    if hasattr(d, "total_seconds"):
        return d.years, d.months, td_us(d) - (365 * d.years + 30 * d.months) * 86400 * US
    rest = ((((d.weeks * 7 + d.days) * 24 + d.hours) * 60 + d.minutes) * 60 + d.seconds) * US + d.microseconds
    return d.years, d.months, rest


def setup(M):
    import pendulum

    M.pendulum = pendulum
    import importlib

    M.py = importlib.import_module("pendulum.parsing.iso8601").parse_iso8601
    rs = sys.modules.get("pendulum._pendulum")
    M.rs = rs.parse_iso8601 if rs is not None else None

    def cnt(ret, a, k, snap):
        M.count("pendulum.parse.calls")

    M.contract(pendulum, "parse", post=cnt, label="pendulum.parse")
    par = sys.modules["pendulum.parsing"]
    M.contract(par, "_parse_iso8601_interval", post=lambda ret, a, k, s: M.count("interval_parser.calls"), label="parsing._parse_iso8601_interval")


def judge_duration(M, s, years, months, rest, tag, frac):
    """rest: exact Fraction of seconds"""
    P = M.pendulum
    exact_us = rest * US
    total_days = F(365 * years + 30 * months) + rest / 86400
    representable = abs(total_days) <= MAXDAYS
    saved = M.current
    M.current = {"k": "dur", "s": s, "y": years, "mo": months, "rest": [rest.numerator, rest.denominator], "tag": tag, "frac": frac}
    try:
        res = {}
        for name, f in (("py", M.py), ("rs", M.rs), ("parse", P.parse)):
            if f is None:
                continue
            r = _try(f, s)
            mon = {"py": "py.direct", "rs": "rs.direct", "parse": "parse"}[name]
            backend = "compiled" if (name == "rs" or (name == "parse" and M.config != "ext0")) else "python"
            if r[0] == "panic":
                M.check(mon, False, f"C13/overflow-panic:{backend}:{tag}", "arithmetic overflow inside the compiled parser (silent wrap in the release build)",
                        s=s, panic=r[1])
                continue
            if not representable:
                if name == "rs" and r[0] == "ok":
                    # the compiled parser returns plain components (no timedelta yet): it must not have wrapped
                    gy, gm, grest = dur_value(r[1])
                    M.check("too_large", (gy, gm) == (years, months) and abs(F(grest) - exact_us) <= F(1, 2), "C13/too-large-wrapped:compiled-direct",
                            "the compiled parser returned components computed from wrapped numbers", s=s, got=[gy, gm, grest])
                    continue
                M.check("too_large", r[0] != "ok", f"C13/too-large-accepted:{backend}", "a number too large to represent returned a value instead of being rejected",
                        s=s, got=_show(r))
                continue
            if r[0] != "ok":
                M.check(mon, False, f"C13/rejected-valid:{backend}:{tag}:{r[0]}", "a well-formed representable duration was rejected", s=s, got=r)
                continue
            gy, gm, grest = dur_value(r[1])
            res[name] = (gy, gm, grest)
            bad = []
            if (gy, gm) != (years, months):
                bad.append("years-months")
            if abs(F(grest) - exact_us) > F(1, 2):
                bad.append("value")
            fcls = "nofrac" if not frac else f"frac-on-{frac[0]}:" + ("digits>6" if frac[1] > 6 else "digits>1" if frac[1] > 1 else "digits=1")
            M.check(mon, not bad, f"C13/{'+'.join(bad)}:{backend}:{fcls}", "parsed duration is not the exact value rounded to the microsecond",
                    s=s, got=[gy, gm, grest], expected=[years, months, float(exact_us)])
        if "py" in res and "rs" in res:
            # exactly half a microsecond: 'rounded to the microsecond' fixes no tie rule for the VALUE (either neighbour passes
            # above), but 'identically in both parser backends' has no exception: the two must pick the same neighbour
            tie = (exact_us * 2).denominator == 1 and (exact_us).denominator != 1
            if tie:
                M.count("backend_eq.exact_ties_judged")
            M.check("backend_eq", res["py"] == res["rs"], "C13/backend-mismatch:" + ("nofrac" if not frac else f"frac-on-{frac[0]}") + (":exact-tie" if tie else ""),
                    "compiled and pure-Python parser differ", s=s, py=res["py"], rs=res["rs"])
        if "parse" in res:
            M.digest(s, repr(res["parse"]))
    finally:
        M.current = saved


def _show(r):
    if r[0] != "ok":
        return r
    try:
        return ["ok"] + list(dur_value(r[1]))
    except Exception:  # noqa: BLE001
        return ["ok", repr(r[1])]


def judge_reject(M, s, tag):
    P = M.pendulum
    saved = M.current
    M.current = {"k": "rej", "s": s, "tag": tag}
    try:
        for name, f in (("py", M.py), ("rs", M.rs), ("parse", P.parse)):
            if f is None:
                continue
            r = _try(f, s)
            backend = "compiled" if (name == "rs" or (name == "parse" and M.config != "ext0")) else "python"
            M.check("reject", r[0] != "ok" and r[0] != "panic", f"C13/accepted-invalid:{tag}:{backend}" if r[0] == "ok" else f"C13/panic-on-invalid:{tag}",
                    "an invalid duration was accepted", s=s, got=_show(r))
    finally:
        M.current = saved


# ---------------------------------------------------------------- workload
def _num(r, nd):
    return r.randrange(10 ** (nd - 1) if nd > 1 else 0, 10 ** nd)


def _tie_digits(r, unit_s):
    """digits d with 0.d * unit_s seconds == (j + 1/2) microseconds for some integer j, or None"""
    for _ in range(6):
        j = r.randrange(0, 10**6) if r.random() < 0.7 else r.randrange(0, 40)
        x = F(2 * j + 1, 2) / (unit_s * 10**6)
        t = x.denominator
        while t % 2 == 0:
            t //= 2
        while t % 5 == 0:
            t //= 5
        if t != 1 or x >= 1:
            continue
        digits = ""
        while x != 0:
            x *= 10
            digits += str(int(x))
            x -= int(x)
        return digits
    return None


def gen_duration(r):
    week = r.random() < 0.12
    if week:
        units = ["W"]
    else:
        du = [u for u in "YMD" if r.random() < 0.5]
        tu = [u for u in "HMS" if r.random() < 0.5]
        units = du + (["T"] + tu if tu else [])
        if not [u for u in units if u != "T"]:
            units = ["D"]
    real = [i for i, u in enumerate(units) if u != "T"]
    last = real[-1]
    s, years, months, rest, frac = "P", 0, 0, F(0), None
    in_time = False
    nd = r.choice((1, 1, 2, 3, 5, 9, 10))
    for i, u in enumerate(units):
        if u == "T":
            s += "T"
            in_time = True
            continue
        n = _num(r, nd if u not in "YM" or in_time else min(nd, 6))
        txt, val = str(n), F(n)
        is_ym = u == "Y" or (u == "M" and not in_time)
        if i == last and not is_ym and r.random() < 0.6:
            # "a decimal fraction of any length": mostly 1..9 digits, a fifth of the cases 10..400 digits
            k = r.choice((1, 1, 2, 3, 6, 7, 9)) if r.random() < 0.8 else r.choice((10, 11, 12, 15, 17, 19, 20, 21, 22, 25, 30, 40, 64, 65, 70, 120, 330, 400))
            digs = "".join(r.choice("0123456789") for _ in range(k))
            if k > 9 and r.random() < 0.5:
                digs = digs[:r.randrange(1, 8)].ljust(k, "0")         # a short fraction written with trailing zeros
            if r.random() < 0.3:
                digs = digs[:-1] + r.choice(("5", "5"))
                if k > 1 and r.random() < 0.5:
                    digs = digs[:-2] + r.choice(("49", "51"))
            if r.random() < 0.08:
                # next to a half-way point whose decimal expansion is long or infinite: its first L digits (just below it)
                # or those plus one unit in the last place (just above it)
                j_ = r.randrange(0, 10**6) if r.random() < 0.7 else r.randrange(0, 40)
                b_ = F(2 * j_ + 1, 2 * UNIT_S[u] * 10**6)
                if b_ < 1:
                    L_ = r.choice((7, 9, 12, 16, 17, 18, 20, 24, 25, 26, 30, 45, 60, 90))
                    v_ = (b_.numerator * 10**L_) // b_.denominator + r.randrange(2)
                    if 0 < v_ < 10**L_:
                        digs, k = str(v_).rjust(L_, "0"), L_
            if r.random() < 0.12:
                # an exact tie: the fraction of this unit that is a whole number of microseconds plus one half (when it has a
                # finite decimal expansion); the value may round either way, but both backends must round it the same way
                t_ = _tie_digits(r, UNIT_S[u])
                if t_:
                    digs, k = t_, len(t_)
            txt += r.choice(".,") + digs
            val += F(int(digs), 10 ** k)
            frac = (u if not (u == "M" and in_time) else "Mi", k)
        s += txt + u
        if u == "Y":
            years = n
        elif is_ym:
            months = n
        else:
            rest += val * UNIT_S[u]
    tag = "".join(u for u in units)
    return s, years, months, rest, frac, tag, nd


INVALID = [("PT1S1H", "order"), ("PT1M1H", "order"), ("P1D1Y", "order"), ("P1M1Y", "order"), ("P1D1M", "order"), ("PT1S1M", "order"),
           ("P1.5Y", "frac-year"), ("P1,5Y", "frac-year"), ("P1.5M", "frac-month"), ("P1Y1.5M", "frac-month"), ("P1.5Y2M", "frac-year"),
           ("PT1.5H30M", "frac-not-last"), ("P1.5DT1H", "frac-not-last"), ("PT1.5M30S", "frac-not-last"), ("P1.5DT1S", "frac-not-last"),
           ("P1H", "time-unit-without-T"), ("P1S", "time-unit-without-T"), ("P1YT", "empty-time"), ("1Y", "no-P"), ("P-1D", "negative"),
           ("P1Y2M3DT4H5M6S7", "trailing"), ("P1.D", "empty-fraction"), ("P.5D", "empty-integer"), ("PT1.S", "empty-fraction")]


def cases(M):
    r = gen.rng(M)
    thorough = M.tier == "thorough"
    n = (1500000 if thorough else 240000) // M.nshards
    yield {"k": "durations", "n": n, "seed": r.randrange(1 << 30)}
    yield {"k": "invalid", "seed": r.randrange(1 << 30), "n": (40000 if thorough else 4000) // M.nshards}
    yield {"k": "large", "seed": r.randrange(1 << 30), "n": (20000 if thorough else 2000) // M.nshards}
    yield {"k": "intervals", "seed": r.randrange(1 << 30), "n": (300000 if thorough else 40000) // M.nshards}


def run(M, c):
    import random

    P = M.pendulum
    k = c["k"]
    if k == "dur":
        judge_duration(M, c["s"], c["y"], c["mo"], F(c["rest"][0], c["rest"][1]), c["tag"], tuple(c["frac"]) if c["frac"] else None)
        return
    if k == "rej":
        judge_reject(M, c["s"], c["tag"])
        return
    if k == "iv":
        _interval(M, c)
        return
    r = random.Random(c["seed"])
    if k == "durations":
        for i in range(c["n"]):
            M.progress()
            s, y, mo, rest, frac, tag, nd = gen_duration(r)
            M.cls(tag, nd, frac)
            judge_duration(M, s, y, mo, rest, tag, frac)
            if i < 3:
                M.sample({"k": "dur", "s": s, "years": y, "months": mo, "rest_s": float(rest)})
        return
    if k == "invalid":
        for i in range(c["n"]):
            M.progress()
            s, tag = INVALID[i % len(INVALID)]
            if i >= len(INVALID):
                # vary the numbers
                s = "".join(str(r.randrange(1, 10 ** r.randrange(1, 4))) if ch == "1" else ch for ch in s)
            M.cls("invalid", tag)
            judge_reject(M, s, tag)
        return
    if k == "large":
        specials = [2**31 - 1, 2**31, 2**32 - 1, 2**32, 2**32 + 1, 10**10, 10**10 - 1, 2**63, 2**64, 999999999, 10**9, 4294967296 + 86400, 99999999999]
        for i in range(c["n"]):
            M.progress()
            u = r.choice("YMWDHMS")
            in_time = u in "HMS" and not (u == "M" and i % 2)
            n = r.choice(specials) + r.choice((0, 0, 1, -1, r.randrange(1000)))
            if u == "W":
                s = f"P{n}W"
            elif in_time:
                s = f"PT{n}{u}"
            else:
                s = f"P{n}{u}"
            y = n if u == "Y" else 0
            mo = n if (u == "M" and not in_time) else 0
            unit = u if u in "WDHS" else ("M" if (u == "M" and in_time) else None)
            rest = F(n) * UNIT_S[unit] if unit else F(0)
            if i % 5 == 0 and unit:
                # two big components that overflow only in the sum
                s2 = f"P{n}DT{n}S" if u not in "W" else s
                if s2 != s:
                    s, y, mo, rest = s2, 0, 0, F(n) * 86400 + F(n)
            M.cls("large", u, len(str(n)))
            judge_duration(M, s, y, mo, rest, "large-" + u, None)
        return
    if k == "intervals":
        prev = None
        for i in range(c["n"]):
            M.progress()
            u1 = gen.modern_instant(r) // US * US + r.choice((0, r.randrange(US)))
            u2 = gen.modern_instant(r) // US * US
            off1 = r.choice((None, 0, r.randrange(-1439, 1440)))
            off2 = r.choice((off1, None, 0, r.randrange(-1439, 1440)))
            if i % 6 == 5 and prev is not None and prev[2] is not None:
                # history: the SAME instants as the previous text, written with other offsets (the values compare equal as
                # datetimes; anything remembered per parsed value must not leak the earlier offset or wall clock)
                u1, u2 = prev[0], prev[1]
                off1 = r.choice((0, r.randrange(-1439, 1440), -60, 60, 345))
                off2 = r.choice((off1, 0, r.randrange(-1439, 1440)))
                if off1 == prev[2]:
                    off1 = (off1 + 90) % 1440 - 720
                hist = True
            else:
                hist = False
            form = ("se", "sd", "de")[i % 3]
            dy, dmo, dd, dh, dmi, ds = r.randrange(3), r.randrange(14), r.randrange(40), r.randrange(30), r.randrange(70), r.randrange(70)
            tzopt = r.choice((None, None, "Europe/Paris", "America/Sao_Paulo", "Asia/Kathmandu"))
            if i % 4 == 1 and not hist:
                # a naive endpoint in a DST zone, up to three days around one of its transitions, and a duration whose day
                # part is only implied by its hours (PT36H): both backends must derive the other endpoint in the same way
                tzopt = r.choice(("Europe/Paris", "America/Sao_Paulo", "America/New_York", "Australia/Lord_Howe"))
                z = tzdb.Z.get(tzopt)
                t, ob, oa, _ = z.trans[r.randrange(len(z.trans) // 2, len(z.trans))]
                u1 = u2 = (t + ob + r.randrange(-3 * 86400, 3 * 86400)) * US
                off1 = off2 = None
                dy = dmo = 0
                dd = r.choice((0, 0, 1))
                dh = r.randrange(20, 80)
            if hist:
                form, tzopt = "se", prev[3]       # both endpoints are parsed again, under the same options
            prev = (u1, u2, off1, tzopt)
            _interval(M, {"k": "iv", "u1": u1, "u2": u2, "off1": off1, "off2": off2, "form": form, "d": [dy, dmo, dd, dh, dmi, ds], "tz": tzopt,
                          "dateonly": (None, "start", "end", "both")[i // 7 % 4] if i % 7 == 3 and not hist else None, "exact": i % 5 == 0})
        return


def _dts(u, off):
    """render instant/wall u as ISO string with offset off (minutes) or naive"""
    F7 = us_to_fields(u + (off or 0) * 60 * US)
    s = "%04d-%02d-%02dT%02d:%02d:%02d" % F7[:6]
    if F7[6]:
        s += ".%06d" % F7[6]
    if off is None:
        return s, F7, None
    if off == 0:
        return s + "Z", F7, 0
    sign = "-" if off < 0 else "+"
    return s + "%s%02d:%02d" % (sign, abs(off) // 60, abs(off) % 60), F7, off * 60


def _interval(M, c):
    from pvmon.props import c04

    P = M.pendulum
    s1, F1, o1 = _dts(c["u1"], c["off1"])
    s2, F2, o2 = _dts(c["u2"], c["off2"])
    if c.get("dateonly") in ("start", "both"):
        F1, o1 = F1[:3] + (0, 0, 0, 0), None         # a calendar date denotes its first instant
        s1 = "%04d-%02d-%02d" % F1[:3]
    if c.get("dateonly") in ("end", "both"):
        F2, o2 = F2[:3] + (0, 0, 0, 0), None
        s2 = "%04d-%02d-%02d" % F2[:3]
    dy, dmo, dd, dh, dmi, ds = c["d"]
    dstr = "P" + (f"{dy}Y" if dy else "") + (f"{dmo}M" if dmo else "") + (f"{dd}D" if dd else "") + \
        ("T" + (f"{dh}H" if dh else "") + (f"{dmi}M" if dmi else "") + (f"{ds}S" if ds else "") if (dh or dmi or ds) else "")
    if dstr == "P":
        dstr = "P1D"
        dd = 1
    form = c["form"]
    text = {"se": f"{s1}/{s2}", "sd": f"{s1}/{dstr}", "de": f"{dstr}/{s2}"}[form]
    opts = {"tz": c["tz"]} if c["tz"] else {}
    if c.get("exact"):
        opts["exact"] = True            # an interval is an interval under every option
    saved = M.current
    M.current = dict(c)
    M.current["text"] = text
    try:
        r = _try(P.parse, text, **opts)
        M.cls("iv", form, c["off1"] is None, c["off2"] is None, c["tz"], bool(dy or dmo), bool(dd), bool(dh or dmi or ds))
        if r[0] != "ok":
            M.check("interval", False, f"C13/interval-{form}:raised:{r[0]}", "a well-formed interval string was rejected", text=text, got=r)
            return
        iv = r[1]
        if not isinstance(iv, P.Interval):
            M.check("interval", False, f"C13/interval-{form}:type", "not an Interval", text=text, got=repr(iv))
            return

        def expect_endpoint(F7, off):
            """written endpoint -> (fields, offset us)"""
            if off is not None:
                return (F7, off * US)
            # naive: tz option (default UTC), C02 normalisation decided elsewhere; accept what pendulum.datetime gives
            M.quiet += 1
            try:
                x = P.datetime(*F7, tz=c["tz"] or "UTC")
            finally:
                M.quiet -= 1
            return (fields(x), off_us(x))

        bad = []
        if form in ("se", "sd"):
            e = expect_endpoint(F1, o1)
            if (fields(iv.start), off_us(iv.start)) != e:
                bad.append("start")
        if form in ("se", "de"):
            e = expect_endpoint(F2, o2)
            if (fields(iv.end), off_us(iv.end)) != e:
                bad.append("end")
        vals = [dy, dmo, 0, dd, dh, dmi, ds, 0]
        # canonical components of the duration (weeks/remaining_days etc.) denote the same calendar shift
        if form == "sd":
            m = c04.model(iv.start, vals)
            if m is not None and m[0] in ("value", "instant", "naive"):
                ok = (inst(iv.end) == m[1]) if m[1] is not None else (wall_us(iv.end) == m[2])
                if not ok:
                    bad.append("derived-end")
        if form == "de":
            m = c04.model(iv.end, [-v for v in vals])
            if m is not None:
                ok = (inst(iv.start) == m[1]) if m[1] is not None else (wall_us(iv.start) == m[2])
                if not ok:
                    bad.append("derived-start")
        M.check("interval", not bad, f"C13/interval-{form}:{'+'.join(bad)}", "interval endpoints differ from the written/derived ones",
                text=text, start=str(iv.start), end=str(iv.end), opts=opts)
    finally:
        M.current = saved
