"""C17 — parse() is total: a supported value or a ValueError/ParserError, nothing else.

Contract with an exceptional-exit handler on pendulum.parse: every call's outcome is
classified (supported type / ValueError / anything else); the mechanism signature of a
non-ValueError is (exception class, innermost pendulum frame).  Backend agreement by log
join (ext1 vs ext0 digests of accepted values).  The `ovf` configuration runs the same
strings on the overflow-checked build of the extension: a PanicException is the witness
of a number that the release build wraps silently.
"""
from __future__ import annotations

import calendar
import datetime as dt
import re
import sys
import traceback
import warnings

from pvmon import gen

PLAN = {
    "quick": {"configs": ["ext1", "ext0", "ovf"], "nshards": 6, "nshards_ovf": 4, "timeout": 900, "week_start": [0, 6, 0, 5, 2]},
    "thorough": {"configs": ["ext1", "ext0", "ovf"], "nshards": 12, "nshards_ovf": 8, "timeout": 3400, "suite": ["ext1"], "week_start": [0, 6, 0, 5, 2]},
}
DECIDING = ["parse.outcome", "strict.reject", "backend_join", "concurrent"]
FLOORS = {"quick": {"parse.outcome": 500000, "strict.reject": 300, "backend_join": 8000, "concurrent": 20000},
          "thorough": {"parse.outcome": 5 * 10**6, "strict.reject": 300, "backend_join": 15000, "concurrent": 100000}}
REQUIRED_HOOKS = ["pendulum.parse"]
TECHNIQUE = "exception-class monitor (contract with exceptional-exit handler) on pendulum.parse over enumerated edits of every valid form, long digit runs before and after the decimal separator (up to 400 digits), backend-agreement log join, overflow-checked extension build as integer sanitizer; streams of distinct strings parsed by four threads at once (1 us switch interval), history judged offline"
LEVEL_TEXT = ("every observed call of pendulum.parse is classified: supported type, ValueError, or anything else (violation, keyed by "
              "exception class and innermost pendulum frame); all single edits, truncations, sampled double edits and concatenations of "
              "~60 valid forms plus random/non-ASCII strings x option sets x three builds (release, pure Python, overflow-checked); "
              "values accepted by both backends must agree; held on what was observed")
RULE = ("seeds = every valid form of C07/C13 (~60); all single insertions/replacements/deletions over [0-9:TZW/P+-., YMDHS], all "
        "truncations, seeded double edits, concatenations with '/', ' ', 'T'; random strings incl. non-ASCII digits, combining characters, "
        "NULs, long digit runs; x options {default, exact, strict=False, tz, day_first, year_first}; distinct = (seed form, edit kind, "
        "edit position class, option set, outcome class); non-trivial = every edited string (the seed itself is trivial)")
ASSUMPTIONS = ["parse('now') is the documented special case and is not generated", "tz= values are valid timezones",
               "warnings from dateutil are silenced, not judged"]

SEEDS = ["2020-02-29T10:11:12.123456+05:30", "2020-000", "2021000", "2020-W00-1", "2020-W54", "2019-366", "2020-13-01", "2021-02-29", "2020-06-15T12:00:00-00:30", "20200615T120000-0045", "2020-06-15T12:00:00.000249-00:01", "2020-02-29T10:11:12Z", "2020-02-29 10:11:12", "2020-02-29", "20200229", "2020-060", "2020060",
         "2020-W09-6", "2020W096", "2020-W09", "2020W09", "2020-02", "2020", "20200229T101112Z", "20200229T101112,5-0530", "2020-02-29T10",
         "2020-02-29T10:11", "2020-02-29T10:11:12,123456789", "10:11:12", "10:11", "T101112", "10:11:12.5", "2020-02-29T10:11:12+05",
         "P1Y2M3DT4H5M6S", "P2W", "PT1.5S", "P1.5D", "PT0.000001S", "P1Y", "PT36H", "P1,5W", "P3DT4H", "PT5M", "P10Y11M",
         "2020-01-01/P1M", "P1D/2020-01-01T00:00:00Z", "2020-01-01T00:00:00Z/2020-02-01T00:00:00Z", "2020-01-01/2020-02-01",
         "2020-01-01T10:00:00+01:00/PT1H", "P1Y2M/2021-03-04T05:06:07", "2020/01/01", "2020:01:01 10:11:12", "2:", "12:30", "1:2:3",
         "2020-12-31T23:59:59.999999-23:59", "0001-01-01", "9999-12-31", "2020-366", "2019-365", "2020-W53-7", "2015-W53", "1583-01-01",
         "20200229T10", "2020-02-29T101112", "2020-02-29 10:11:12.123", "20200229 101112", "2020-02-29T10:11:12+0530", "2020-02-29T10:11:12-05:30"]
ALPHA = "0123456789:TZW/P+-., YMDHS"
OPTS = [("default", {}), ("exact", {"exact": True}), ("lenient", {"strict": False}), ("tz", {"tz": "Europe/Paris"}),
        ("day_first", {"strict": False, "day_first": True}), ("year_last", {"strict": False, "year_first": False}),
        ("exact+tz", {"exact": True, "tz": "America/Sao_Paulo"})]
NON_ISO = ["Jan 1 2020", "1 January 2020", "January 1, 2020 10:00", "2020.01.01", "01/02/2020", "12am", "noon", "Tue 3 March", "3rd of May 2020",
           "2020-Jan-01", "1.2.2020", "20 20", "10pm", "2020年1月1日", "Thursday", "tomorrow", "next week", "01-02-2020 10:00", "2020-01-01 10am",
           "Sat, 29 Feb 2020 10:11:12 +0000", "Feb 29 2020", "29 Feb 2020", "2020-02-29T10:11:12 UTC", "2020-02-29T10:11:12 GMT+1"]


def _where(tb):
    """innermost frame inside pendulum (file:function)"""
    out = "?"
    for fs in traceback.extract_tb(tb):
        if "/pendulum/" in fs.filename and "/pvmon/" not in fs.filename:
            out = fs.filename.split("/pendulum/", 1)[1] + ":" + fs.name
    return out


def setup(M):
    import pendulum

    M.pendulum = pendulum
    warnings.simplefilter("ignore")
    P = pendulum
    OK = (P.DateTime, P.Date, P.Time, P.Duration, P.Interval)

    def post(ret, a, k, snap):
        if a and a[0] == "now":
            return
        M.check("parse.outcome", isinstance(ret, OK), f"C17/unsupported-return-type:{type(ret).__name__}", "parse() returned an unsupported type",
                s=a[0] if a else None, opts=_o(k), got=repr(ret)[:200])
        # a value returned for a pure date form must be the date the digits denote - not one wrapped around the calendar
        # (day 000 -> 31 December, week 00, month 13 ...); judged under strict parsing only
        if a and isinstance(a[0], str) and k.get("strict", True) and isinstance(ret, (P.DateTime, P.Date)) and not isinstance(ret, P.Interval):
            den = _denoted_date(a[0].strip())
            if den is not None:
                got = (ret.year, ret.month, ret.day)
                M.check("parse.outcome", den != "impossible" and got == den, "C17/date-form-value:" + ("impossible-accepted" if den == "impossible" else "wrong"),
                        "a date form was accepted with a value its digits do not denote", s=a[0], opts=_o(k), got=got, denoted=den)

    def exc(e, a, k, snap):
        if isinstance(e, ValueError):
            M.ev("parse.outcome")
            M.count("raised.ValueError")
            return
        w = _where(e.__traceback__)
        M.check("parse.outcome", False, f"C17/raised-{type(e).__name__}@{w}", "parse() raised something that is not a ValueError",
                s=a[0] if a else None, opts=_o(k), exc=repr(e)[:200], where=w)

    M.contract(pendulum, "parse", post=post, exc=exc, label="pendulum.parse")


_RE_ORD = re.compile(r"^(\d{4})-?(\d{3})$")
_RE_CAL = re.compile(r"^(\d{4})-(\d{2})-(\d{2})$")
_RE_WK = re.compile(r"^(\d{4})-?W(\d{2})(?:-?(\d))?$")


def _denoted_date(s):
    """(y, m, d) | 'impossible' | None (not one of the three pure date shapes)"""
    import datetime as dt

    try:
        m = _RE_ORD.match(s)
        if m:
            y, o = int(m.group(1)), int(m.group(2))
            if y < 1 or not 1 <= o <= (366 if calendar.isleap(y) else 365):
                return "impossible"
            d = dt.date(y, 1, 1) + dt.timedelta(days=o - 1)
            return (d.year, d.month, d.day)
        m = _RE_CAL.match(s)
        if m:
            y, mo, d = (int(g) for g in m.groups())
            if y < 1 or not 1 <= mo <= 12 or not 1 <= d <= calendar.monthrange(y, mo)[1]:
                return "impossible"
            return (y, mo, d)
        m = _RE_WK.match(s)
        if m:
            y, w, wd = int(m.group(1)), int(m.group(2)), int(m.group(3) or 1)
            if y < 1 or not 1 <= wd <= 7 or not 1 <= w <= dt.date(y, 12, 28).isocalendar()[1]:
                return "impossible"
            d = dt.date.fromisocalendar(y, w, wd)
            return (d.year, d.month, d.day)
    except (ValueError, OverflowError):
        return None
    return None


def _o(k):
    return {n: (v if isinstance(v, (str, bool, int)) else repr(v)) for n, v in k.items() if n != "now"}


def _digest(v):
    import pendulum as P

    if isinstance(v, P.Interval):
        return "I:" + _digest(v.start) + "|" + _digest(v.end)
    if isinstance(v, P.Duration):
        return f"D:{v.years}:{v.months}:{dt.timedelta.days.__get__(v)}:{dt.timedelta.seconds.__get__(v)}:{dt.timedelta.microseconds.__get__(v)}"
    if isinstance(v, dt.datetime):
        return f"T:{v.isoformat()}"
    return f"{type(v).__name__}:{v.isoformat()}"


def call(M, s, oname, opts, key=None):
    """one monitored call; returns outcome class"""
    P = M.pendulum
    try:
        v = P.parse(s, now=dt.datetime(2021, 3, 4, 5, 6, 7), **opts)      # contract judges
    except ValueError:
        return "VE"
    except Exception as e:  # noqa: BLE001
        return "EXC:" + type(e).__name__
    except BaseException as e:
        if type(e).__name__ in ("CaseTimeout", "KeyboardInterrupt", "SystemExit"):
            raise
        # PanicException (BaseException) from the overflow-checked build
        M.check("parse.outcome", False, "C17/overflow-panic-in-compiled-parser", "arithmetic overflow inside the compiled parser (the release build wraps silently)",
                s=s, opts=oname, panic=str(e)[:160])
        return "PANIC"
    if M.config in ("ext1", "ext0") and oname in ("default", "exact"):
        try:
            M.digest(oname + "\x00" + s, _digest(v))
        except Exception:  # noqa: BLE001
            pass
    return "OK:" + type(v).__name__


def join_digests(digests):
    a, b = digests.get("ext1"), digests.get("ext0")
    if not a or not b:
        return
    for key in a.keys() & b.keys():
        if a[key] != b[key]:
            oname, s = key.split("\x00", 1)
            import re

            bare = any(re.fullmatch(r"\d{4}", part) for part in s.split("/")) and "/" in s
            yield ("C17/backends-accept-with-different-values" + (":bare-year-interval-half" if bare else ""),
                   "both parser backends accept the string but return different values",
                   {"s": s, "opts": oname, "compiled": a[key], "python": b[key]}, {"k": "one", "s": s, "o": oname}, 1)


def edits(s):
    out = []
    for i in range(len(s) + 1):
        for ch in ALPHA:
            out.append(("ins", i, s[:i] + ch + s[i:]))
            if i < len(s) and s[i] != ch:
                out.append(("rep", i, s[:i] + ch + s[i + 1:]))
        if i < len(s):
            out.append(("del", i, s[:i] + s[i + 1:]))
            out.append(("trunc", i, s[:i]))
    return out


def cases(M):
    r = gen.rng(M)
    thorough = M.tier == "thorough"
    # the same strings must reach every configuration (join) => shard by seed index, not by config
    for si, seed in enumerate(SEEDS):
        if si % M.nshards != M.shard:
            continue
        yield {"k": "edits", "si": si, "double": 3000 if thorough else 400, "seed": r.randrange(1 << 30), "allopts": True}
    yield {"k": "concat", "n": (300000 if thorough else 30000) // M.nshards, "seed": r.randrange(1 << 30)}
    yield {"k": "random", "n": (2000000 if thorough else 150000) // M.nshards, "seed": r.randrange(1 << 30)}
    if M.shard % 2 == 0:
        yield {"k": "threads", "seed": r.randrange(1 << 30), "n": 6000 if thorough else 2000}
    if M.shard % 4 == 1:
        yield {"k": "longfrac", "seed": 1000 + M.shard // 4}       # the same strings in every configuration (join)
    if M.shard == 0:
        yield {"k": "nonisostrict"}
        yield {"k": "huge"}


def run(M, c):
    import random

    k = c["k"]
    if k == "one":
        opts = dict(OPTS)[c["o"]]
        call(M, c["s"], c["o"], opts)
        return
    if k == "edits":
        seed = SEEDS[c["si"]]
        r = random.Random(c["seed"])
        eds = edits(seed)
        for kind, pos, s in eds:
            M.progress()
            posc = "start" if pos == 0 else "end" if pos >= len(seed) - 1 else "mid"
            for oname, opts in (OPTS if c["allopts"] else OPTS[:3] + [OPTS[3 + (pos + len(s)) % 4]]):
                M.current = {"k": "one", "s": s, "o": oname}
                out = call(M, s, oname, opts)
                M.cls(c["si"], kind, posc, oname, out)
        for _ in range(c["double"]):
            M.progress()
            _, _, s1 = r.choice(eds)
            e2 = edits(s1)
            _, _, s2 = r.choice(e2)
            oname, opts = r.choice(OPTS)
            M.current = {"k": "one", "s": s2, "o": oname}
            out = call(M, s2, oname, opts)
            M.cls(c["si"], "double", oname, out)
        M.sample({"k": "edits", "seed": seed, "single_edits": len(eds), "double_edits": c["double"]})
        return
    if k == "concat":
        r = random.Random(c["seed"])
        for _ in range(c["n"]):
            M.progress()
            a, b = r.choice(SEEDS), r.choice(SEEDS)
            s = a + r.choice(("/", " ", "T", "", "//", "/P", "Z/")) + b
            oname, opts = r.choice(OPTS)
            M.current = {"k": "one", "s": s, "o": oname}
            out = call(M, s, oname, opts)
            M.cls("concat", oname, out)
        return
    if k == "random":
        r = random.Random(c["seed"])
        pools = [ALPHA, "٠١٢٣٤٥٦٧٨٩:-T", "０１２３４５６７８９-:T", "0123456789" * 3 + "-:TZ+. ́​\x00\n\t", "PYMWDTHS0123456789.,", "0123456789"]
        for i in range(c["n"]):
            M.progress()
            pool = r.choice(pools)
            n = r.choice((0, 1, 2, 3, 5, 8, 10, 19, 25, 40, 200)) if i % 50 else r.choice((1000, 5000))
            s = "".join(r.choice(pool) for _ in range(n))
            if i % 7 == 0:
                base = r.choice(SEEDS)
                j = r.randrange(len(base) + 1)
                s = base[:j] + s[:6] + base[j:]
            oname, opts = r.choice(OPTS)
            M.current = {"k": "one", "s": s, "o": oname}
            out = call(M, s, oname, opts)
            M.cls("random", pools.index(pool), min(n, 50), oname, out)
        return
    if k == "huge":
        nums = [2**31 - 1, 2**31, 2**32 - 1, 2**32, 2**32 + 1, 10**10, 2**63, 2**64, 10**20, 10**30, 999999999, 10**9, 99999999999]
        for n in nums:
            M.progress()
            for tmpl in ("P%dD", "P%dW", "PT%dS", "PT%dH", "P%dY", "P%dM", "PT%dM", "P%dDT%dS", "P1DT%d.5S", "P%d.5D", "2020-01-01/P%dD", "P%dD/2020-01-01",
                         "P%dY/2020-01-01", "2020-01-01T00:00:00Z/P%dM", "%d-01-01", "2020-01-01T%d:00:00", "2020-%d"):
                s = tmpl % ((n,) * tmpl.count("%d"))
                for oname, opts in OPTS[:3]:
                    M.current = {"k": "one", "s": s, "o": oname}
                    out = call(M, s, oname, opts)
                    M.cls("huge", tmpl, oname, out)
        return
    if k == "threads":
        # the same stream of DISTINCT strings parsed by four threads at once (anything parse() memoises, evicts or keeps
        # in module-level scratch state is then read and written concurrently); every thread records its outcomes, the
        # history is judged afterwards: only ValueError may be raised, and every thread must see the value a later
        # single-threaded parse gives (and, for the plain date-time form, the value datetime.fromisoformat gives)
        from pvmon import conc

        P = M.pendulum
        r = random.Random(c["seed"])
        items = []
        for i in range(c["n"]):
            y, mo, d, h, mi, sec = 1900 + r.randrange(200), 1 + r.randrange(12), 1 + r.randrange(28), r.randrange(24), r.randrange(60), r.randrange(60)
            form = i % 8
            if form < 4:
                items.append(f"{y:04d}-{mo:02d}-{d:02d}T{h:02d}:{mi:02d}:{sec:02d}" + ("+00:00", "Z", "-05:30", ".%06d+01:00" % r.randrange(10**6))[form])
            elif form == 4:
                items.append(f"P{r.randrange(1, 400)}DT{h}H{mi}M{sec}.{r.randrange(10**6):06d}S")
            elif form == 5:
                items.append(f"{y:04d}-{mo:02d}-{d:02d}T{h:02d}:{mi:02d}:{sec:02d}Z/P{r.randrange(1, 50)}D")
            elif form == 6:
                items.append(f"{y:04d}-W{1 + r.randrange(52):02d}-{1 + r.randrange(7)}")
            else:
                items.append(f"{y:04d}-{13 + r.randrange(80):02d}-{d:02d}T{h:02d}:{mi:02d}")        # impossible month: ValueError

        def one(s_):
            return _digest(P.parse(s_))

        M.quiet += 1
        try:
            hist, st = conc.run(items, one, nthreads=4, chunk=64, tick=M.progress)
            ref = {}
            for s_ in items:
                try:
                    ref[s_] = ("ok", one(s_))
                except ValueError:
                    ref[s_] = ("VE", None)
                except Exception as e:  # noqa: BLE001
                    ref[s_] = ("exc", type(e).__name__)
        finally:
            M.quiet -= 1
        for k_, v in st.items():
            M.count("concurrent." + k_, v)
        for t, i, kind, v in hist:
            s_ = items[i]
            M.current = {"k": "one", "s": s_, "o": "default"}
            if kind == "exc":
                ok = isinstance(v, ValueError) and ref[s_][0] == "VE"
                M.check("concurrent", ok, "C17/concurrent:" + (f"raised-{type(v).__name__}" if not isinstance(v, ValueError) else "rejected-what-one-thread-accepts"),
                        "parse() called from several threads at once raised something other than ValueError (or rejected a string it accepts single-threaded)",
                        s=s_, exc=repr(v)[:200], thread=t, single_threaded=ref[s_])
                continue
            ok = ref[s_] == ("ok", v)
            if ok and i % 8 < 4:
                ok = v == "T:" + dt.datetime.fromisoformat(s_.replace("Z", "+00:00")).isoformat()
            M.check("concurrent", ok, "C17/concurrent:value-differs", "parse() called from several threads at once returned another value than single-threaded",
                    s=s_, got=repr(v)[:200], thread=t, single_threaded=repr(ref[s_])[:200])
        M.cls("threads", st["threads"])
        M.sample({"k": "threads", "n": c["n"]})
        return
    if k == "longfrac":
        # long digit runs AFTER the decimal separator (the integer positions are the business of "huge"): fractions of 10..400
        # digits on every duration unit, on times and inside intervals - accumulated in fixed-width integers or floats they
        # wrap or vanish; the backends must agree (join) and the overflow-checked build must not panic
        r = random.Random(c["seed"])
        for n in (10, 15, 18, 19, 20, 21, 22, 25, 30, 38, 39, 40, 64, 65, 100, 308, 309, 400):
            M.progress()
            for digs in ("5" + "0" * (n - 1), "25" + "0" * (n - 2), "9" * n, "".join(r.choice("0123456789") for _ in range(n)),
                         "0" * (n - 1) + "1", "4" + "9" * (n - 1)):
                for tmpl in ("PT0.%sS", "PT7,%sS", "P0.%sD", "PT1.%sH", "PT2,%sM", "P0.%sW", "P1Y2M3DT4H5M6.%sS", "10:11:12.%s", "T101112,%s",
                             "2020-02-29T10:11:12.%s+01:00", "2020-02-29T10:11:12.%sZ", "20200229T101112.%s-0530", "2020-02-29 10:11:12.%s",
                             "2020-01-01T00:00:00.%sZ/PT0.%sS", "PT0.%sH/2020-01-01T00:00:00Z", "2020-01-01T00:00:00Z/2020-01-01T00:00:01.%sZ"):
                    s = tmpl % ((digs,) * tmpl.count("%s"))
                    for oname, opts in OPTS[:4]:
                        M.current = {"k": "one", "s": s, "o": oname}
                        out = call(M, s, oname, opts)
                        M.cls("longfrac", tmpl, n, oname, out)
        return
    if k == "nonisostrict":
        P = M.pendulum
        for s in NON_ISO:
            M.progress()
            M.current = {"k": "one", "s": s, "o": "default"}
            out = call(M, s, "default", {})
            M.check("strict.reject", out == "VE", "C17/strict-accepts-non-iso" if out.startswith("OK") else "C17/strict-other:" + out,
                    "strict=True accepted (or crashed on) text outside the ISO 8601 / RFC 3339 forms", s=s, outcome=out)
            call(M, s, "lenient", {"strict": False})
        # month-name dates generated for every month and a few days
        import calendar

        for mo in range(1, 13):
            M.progress()
            for d in (1, 15, 28):
                for s in (f"{calendar.month_abbr[mo]} {d} 2020", f"{d} {calendar.month_name[mo]} 2020", f"{d}-{calendar.month_abbr[mo]}-2020 10:00"):
                    M.current = {"k": "one", "s": s, "o": "default"}
                    out = call(M, s, "default", {})
                    M.check("strict.reject", out == "VE", "C17/strict-accepts-non-iso", "strict=True accepted text with a month name", s=s, outcome=out)
                    M.cls("noniso", mo, d)
        return
