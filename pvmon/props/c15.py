"""C15 — calendar primitives agree with the proleptic Gregorian calendar in both backends.

Contracts on is_leap / is_long_year / days_in_year / week_day / local_time of BOTH
implementations (pendulum._helpers and pendulum._pendulum, plus the pendulum.helpers
binding) judge every call against datetime/calendar; the getters of Date and DateTime
are judged at the workload boundary.  The thorough tier enumerates all 9999 years and
all 3 652 059 dates.
"""
from __future__ import annotations

import calendar
import datetime as dt
import math
import sys

from pvmon import gen

PLAN = {
    "quick": {"configs": ["ext1", "ext0"], "nshards": 8, "timeout": 900, "calendar_first": [0, 6, 0, 5]},
    "thorough": {"configs": ["ext1", "ext0"], "nshards": 16, "timeout": 3400, "suite": ["ext1"], "calendar_first": [0, 6, 0, 5]},
}
DECIDING = ["is_leap", "is_long_year", "days_in_year", "week_day", "local_time", "getters", "backend_eq"]
FLOORS = {"quick": {"is_leap": 19998, "is_long_year": 19998, "days_in_year": 19998, "week_day": 500000, "local_time": 100000,
                    "getters": 500000, "backend_eq": 100000},
          "thorough": {"is_leap": 19998, "is_long_year": 19998, "days_in_year": 19998, "week_day": 7304118,
                       "local_time": 2 * 10**6, "getters": 7304118, "backend_eq": 2 * 10**6}}
REQUIRED_HOOKS = ["py.is_leap", "py.week_day", "py.local_time", "rs.is_leap", "rs.week_day", "rs.local_time"]
EXHAUSTIVE = {"quick": False, "thorough": True}
TECHNIQUE = "runtime contracts on both implementations of the calendar primitives against datetime/calendar, driven by exhaustive enumeration of years and dates; getters read on Date, naive, UTC and zone-aware values and on the same instant expressed in a far-away zone (equal and hash-equal, other calendar date; both orders); shards run under rotating calendar.setfirstweekday()"
LEVEL_TEXT = ("every call of the five primitives in either implementation is judged against the standard library; the thorough tier "
              "drives them (and the Date/DateTime getters) over all 9999 years and all 3 652 059 dates, day-boundary timestamps "
              "+-1 s over the whole range and random (second, offset) pairs; exhaustive for the year and date sub-domains")
RULE = ("years 1..9999 (all); dates: thorough all 3 652 059, quick every 7th with a seeded phase plus every month end and month start; "
        "timestamps: day boundaries +-1 s over years 1..9999 (thorough all, quick every 11th) at offset 0 plus seeded (second, offset in "
        "-86399..86399) pairs, negative and fractional inputs; distinct = (primitive, year) for years and (year, month, day-class) for "
        "dates; every case is non-trivial (pure functions of the input)")
ASSUMPTIONS = ["trusted base: CPython datetime and calendar (proleptic Gregorian)"]

E0 = dt.datetime(1970, 1, 1)
LO = -62135596800
HI = 253402300799


def setup(M):
    import pendulum
    import pendulum._helpers as PY

    M.pendulum = pendulum
    M.py = PY
    RS = sys.modules.get("pendulum._pendulum")
    if RS is None:
        try:
            import pendulum._pendulum as RS  # noqa: N811
        except ImportError:
            RS = None
    M.rs = RS

    def c_leap(tag):
        def post(ret, a, k, snap):
            y = a[0]
            if 1 <= y <= 9999:
                M.check("is_leap", ret is calendar.isleap(y) or ret == calendar.isleap(y), f"C15/is_leap:{tag}", "is_leap wrong",
                        year=y, got=ret)
        return post

    def c_long(tag):
        def post(ret, a, k, snap):
            y = a[0]
            if 1 <= y <= 9999:
                M.check("is_long_year", bool(ret) == (dt.date(y, 12, 28).isocalendar()[1] == 53), f"C15/is_long_year:{tag}",
                        "is_long_year wrong", year=y, got=ret)
        return post

    def c_diy(tag):
        def post(ret, a, k, snap):
            y = a[0]
            if 1 <= y <= 9999:
                M.check("days_in_year", ret == (366 if calendar.isleap(y) else 365), f"C15/days_in_year:{tag}", "days_in_year wrong",
                        year=y, got=ret)
        return post

    def c_wd(tag):
        def post(ret, a, k, snap):
            try:
                exp = dt.date(a[0], a[1], a[2]).isoweekday()
            except (ValueError, TypeError):
                return
            M.check("week_day", ret == exp, f"C15/week_day:{tag}", "week_day wrong", date=list(a[:3]), got=ret, expected=exp)
        return post

    def c_lt(tag):
        def post(ret, a, k, snap):
            ts, off, us = a[0], a[1], a[2]
            s = math.floor(ts) + off
            if not LO <= s <= HI:
                return
            e = E0 + dt.timedelta(seconds=s)
            exp = (e.year, e.month, e.day, e.hour, e.minute, e.second, us)
            M.check("local_time", tuple(ret) == exp, f"C15/local_time:{tag}", "local_time wrong", ts=ts, offset=off, got=list(ret),
                    expected=list(exp))
        return post

    for tag, mod in (("py", PY), ("rs", RS), ("helpers", sys.modules["pendulum.helpers"])):
        if mod is None:
            continue
        for name, mk in (("is_leap", c_leap), ("is_long_year", c_long), ("days_in_year", c_diy), ("week_day", c_wd),
                         ("local_time", c_lt)):
            try:
                M.contract(mod, name, post=mk(tag), label=f"{tag}.{name}")
            except (AttributeError, TypeError):
                M.unattached.append(f"{tag}.{name}")
    # bindings by `from ... import` elsewhere (formatter uses local_time for the X/x tokens? date uses helpers)
    for modname in ("pendulum.date", "pendulum.datetime", "pendulum.formatting.formatter", "pendulum.parsing.iso8601"):
        mod = sys.modules.get(modname)
        for name, mk in (("is_leap", c_leap), ("is_long_year", c_long), ("days_in_year", c_diy), ("week_day", c_wd),
                         ("local_time", c_lt)):
            if mod is not None and name in vars(mod) and callable(vars(mod)[name]) and not hasattr(vars(mod)[name], "__pvmon_wrapped__"):
                M.contract(mod, name, post=mk(modname.split(".")[-1]), label=f"{modname}.{name}")


def cases(M):
    r = gen.rng(M)
    thorough = M.tier == "thorough"
    yield {"k": "years"} if M.shard == 0 else {"k": "noop"}
    # dates by ordinal chunk
    nchunk = 160
    total = dt.date.max.toordinal()
    step = total // nchunk + 1
    phase = r.randrange(7)
    for ci in range(nchunk):
        if ci % M.nshards != M.shard:
            continue
        yield {"k": "dates", "lo": 1 + ci * step, "hi": min(total, (ci + 1) * step), "stride": 1 if thorough else 7, "phase": phase}
    for ci in range(64):
        if ci % M.nshards != M.shard:
            continue
        yield {"k": "boundaries", "chunk": ci, "nchunk": 64, "stride": 1 if thorough else 11, "phase": r.randrange(11)}
    yield {"k": "randts", "n": (1000000 if thorough else 100000) // M.nshards, "seed": r.randrange(1 << 30)}
    if M.shard % 4 == 2:
        yield {"k": "midnight-gap-months"}


_ZONES = ["Europe/Paris", "America/New_York", "Australia/Sydney", "Australia/Lord_Howe", "Pacific/Apia", "Europe/Dublin",
          "Asia/Kathmandu", "Pacific/Kiritimati", "America/St_Johns", "Africa/Casablanca", "Pacific/Chatham",
          "America/Asuncion", "America/Havana", "Asia/Amman", "Africa/Cairo", "America/Sao_Paulo", "Europe/Moscow"]     # gaps at midnight
_EDGES = [(0, 0, 0, 0), (0, 30, 0, 0), (23, 59, 59, 999999), (23, 30, 0, 0), (0, 59, 59, 999999), (1, 0, 0, 0), (12, 0, 0, 0)]
_FAR = ["Pacific/Kiritimati", "Pacific/Pago_Pago", "Asia/Tokyo", "America/Los_Angeles", "UTC", "Pacific/Chatham"]
_TZ = {}


def _tz(P, zn):
    if zn not in _TZ:
        _TZ[zn] = P.timezone(zn)
    return _TZ[zn]


def _expected(d):
    y, m, dd = d.year, d.month, d.day
    wom = (dd - 1 + dt.date(y, m, 1).weekday()) // 7 + 1      # row of the Monday-first month grid (no use of calendar's global first weekday)
    return (d.weekday(), d.timetuple().tm_yday, d.isocalendar()[1], wom, calendar.monthrange(y, m)[1], (m - 1) // 3 + 1,
            calendar.isleap(y), dt.date(y, 12, 28).isocalendar()[1] == 53)


def _judge_getters(M, kind, x, exp, d):
    try:
        got = (int(x.day_of_week), x.day_of_year, x.week_of_year, x.week_of_month, x.days_in_month, x.quarter,
               x.is_leap_year(), x.is_long_year())
    except Exception as e:  # noqa: BLE001
        got = ("raise", repr(e))
    names = ("day_of_week", "day_of_year", "week_of_year", "week_of_month", "days_in_month", "quarter", "is_leap_year",
             "is_long_year")
    bad = [n for n, g, e in zip(names, got, exp) if g != e] if got[0] != "raise" else ["raised"]
    M.check("getters", not bad, f"C15/getter:{kind}:{'+'.join(bad)}", "getter differs from the standard library",
            date=[d.year, d.month, d.day], got=list(got), expected=list(exp), value=repr(x))


def _safe(f, *a):
    try:
        return tuple(f(*a))
    except Exception as e:  # noqa: BLE001
        return "raised-" + type(e).__name__


def _getters(M, P, d, w):
    """judge the eight getters on Date and DateTime for native date d"""
    y, m, dd = d.year, d.month, d.day
    exp = _expected(d)
    # the getters depend on the calendar date only: a naive value at the last microsecond of the day and a zone-aware one
    # at a day-edge wall time (zone and wall time rotate with the ordinal) must answer exactly like the plain Date
    o = d.toordinal()
    zn = _ZONES[o % len(_ZONES)]
    hms = _EDGES[(o // len(_ZONES)) % len(_EDGES)]
    xz = P.DateTime(y, m, dd, *hms, tzinfo=_tz(P, zn), fold=o % 2)
    # history: the same instant expressed in a far-away zone is equal and hash-equal to xz but lies on another calendar
    # date; whichever of the two is read first, each must answer for its own local date (a result memoised per value
    # would be served to the other one)
    other = None
    if 2 <= y <= 9998:
        try:
            other = xz.in_timezone(_tz(P, _FAR[(o // 3) % len(_FAR)]))
        except (OverflowError, ValueError):
            other = None
    if other is not None and o % 2:
        _judge_getters(M, "datetime-zone:same-instant-other-zone", other, _expected(dt.date(other.year, other.month, other.day)),
                       dt.date(other.year, other.month, other.day))
    for kind, x in (("date", P.Date(y, m, dd)), ("datetime", P.DateTime(y, m, dd, 12, tzinfo=P.UTC)),
                    ("datetime-naive", P.DateTime(y, m, dd, 23, 59, 59, 999999)),
                    ("datetime-zone", xz)):
        _judge_getters(M, kind, x, exp, d)
    if other is not None and not o % 2:
        _judge_getters(M, "datetime-zone:same-instant-other-zone", other, _expected(dt.date(other.year, other.month, other.day)),
                       dt.date(other.year, other.month, other.day))
        if (other.year, other.month, other.day) != (y, m, dd):
            M.count("same_instant_other_date")


def run(M, c):
    P = M.pendulum
    py, rs = M.py, M.rs
    impls = [("py", py)] + ([("rs", rs)] if rs is not None else [])
    k = c["k"]
    if k == "noop":
        return
    M.current = c
    if k == "midnight-gap-months":
        # zone-aware values (either fold) in the first hour of every day of a month whose 1st has its midnight skipped:
        # the getters still depend on the calendar date alone
        from pvmon import gen as _gen
        from pvmon.common import US as _US, us_to_fields as _utf
        from pvmon.oracle import tzdb as _tzdb

        n = 0
        for zn in _gen.all_zones():
            z = _tzdb.Z.get(zn)
            for (t, ob, oa, _k) in z.trans:
                if oa <= ob:
                    continue
                f = _utf((t + ob) * _US)
                if f[2] != 1 or f[3:6] != (0, 0, 0) or not 1900 < f[0] < 2037:
                    continue
                tz = _tz(P, zn)
                for dd in range(1, calendar.monthrange(f[0], f[1])[1] + 1):
                    d = dt.date(f[0], f[1], dd)
                    exp = _expected(d)
                    for fold in (0, 1):
                        for hms in ((0, 30, 0, 0), (0, 0, 0, 0), (12, 0, 0, 0)):
                            x = P.DateTime(f[0], f[1], dd, *hms, tzinfo=tz, fold=fold)
                            _judge_getters(M, "datetime-zone:midnight-gap-month", x, exp, d)
                            n += 1
                M.cls("mgm", zn, f[0], f[1])
                M.progress()
        M.sample({"k": k, "n": n})
        return
    if k == "years":
        for y in range(1, 10000):
            M.progress()
            vals = []
            for tag, m in impls:
                vals.append((m.is_leap(y), m.is_long_year(y), m.days_in_year(y)))   # contracts judge each
            M.check("backend_eq", len(set(vals)) == 1, "C15/backend-mismatch:years", "implementations differ", year=y, got=vals)
            M.cls("year", y)
        M.sample({"k": "years", "range": [1, 9999]})
        return
    if k == "dates":
        n = 0
        for o in range(c["lo"], c["hi"] + 1):
            M.progress()
            d = dt.date.fromordinal(o)
            monthend = d.day == 1 or d.day >= 28
            if (o + c["phase"]) % c["stride"] and not monthend:
                continue
            w = [m.week_day(d.year, d.month, d.day) for tag, m in impls]     # contracts judge
            if len(set(w)) != 1:
                M.check("backend_eq", False, "C15/backend-mismatch:week_day", "implementations differ", date=str(d), got=w)
            else:
                M.ev("backend_eq")
            _getters(M, P, d, w[0])
            n += 1
            if d.day in (1, 28, 29, 30, 31) or n % 50 == 0:
                M.cls("date", d.year, d.month, d.day)
        M.sample({"k": "dates", "from": str(dt.date.fromordinal(c["lo"])), "to": str(dt.date.fromordinal(c["hi"])), "n": n})
        return
    if k == "boundaries":
        days = (HI - LO + 1) // 86400
        per = days // c["nchunk"] + 1
        lo = c["chunk"] * per
        n = 0
        for di in range(lo, min(days, lo + per)):
            M.progress()
            if (di + c["phase"]) % c["stride"]:
                continue
            base = LO + di * 86400
            for ts in (base - 1, base, base + 1):
                if not LO <= ts <= HI:
                    continue
                out = [tuple(m.local_time(ts, 0, 0)) for tag, m in impls]     # contracts judge
                M.check("backend_eq", len(set(out)) == 1, "C15/backend-mismatch:local_time", "implementations differ", ts=ts, got=out)
                n += 1
            if di % 97 == 0:
                M.cls("boundary", di)
        M.sample({"k": "boundaries", "chunk": c["chunk"], "n": n})
        return
    if k == "randts":
        import random

        r = random.Random(c["seed"])
        for i in range(c["n"]):
            M.progress()
            ts = r.choice((r.randrange(LO, HI), r.randrange(-10**6, 10**6) * 86400 + r.choice((-1, 0, 1)), r.randrange(-10**9, 10**9)))
            off = r.choice((0, r.randrange(-86399, 86400)))
            if not LO <= ts + off <= HI:
                continue
            # (float timestamps are floored: also the ones whose fraction would round up to the next second on a
            #  microsecond grid, and the last double before the next second)
            fr = r.choice((0.5, 0.25, 0.999, 1e-6, 0.9999996, 0.99999951, 1 - 2.0 ** -30, -1e-7, "prev"))
            tsv = ts if i % 5 else math.nextafter(ts + 1.0, -math.inf) if fr == "prev" else ts + fr
            if not LO <= math.floor(tsv) + off <= HI:
                continue
            us = r.randrange(10**6)
            out = [tuple(m.local_time(tsv, off, us)) for tag, m in impls]
            M.check("backend_eq", len(set(out)) == 1, "C15/backend-mismatch:local_time", "implementations differ", ts=tsv, off=off, got=out)
            if i % 101 == 0:
                M.cls("randts", ts // 86400, off)
        # instants up to a day outside the representable range whose LOCAL time (timestamp + offset) is inside it
        for i in range(400):
            if i % 2:
                ts = LO - r.randrange(1, 86400)
                off = r.randrange(LO - ts, 86400)
            else:
                ts = HI + r.randrange(1, 86400)
                off = -r.randrange(ts - HI, 86400)
            out = [_safe(m.local_time, ts, off, 0) for tag, m in impls]       # contracts judge each value
            M.check("backend_eq", len(set(out)) == 1 and not isinstance(out[0], str), "C15/backend-mismatch:local_time:range-edge",
                    "implementations differ (or raise) for a local time inside years 1..9999", ts=ts, off=off, got=out)
        M.sample({"k": "randts", "n": c["n"]})
