"""C08 — format() renders every token correctly and from_format() inverts it.

Contracts: Formatter._format_token (every token rendered anywhere is compared with a
per-token reference computed from strftime / integer arithmetic / the locale's own
tables), Formatter.format (counts), Formatter.parse and pendulum.from_format (counts,
exceptional exits).  Boundary checkers: whole-format rendering (tokens + literal
separators + [escaped] text + backslash escapes), named to_*_string() compositions,
format -> from_format round trips, partial formats filled from an injected `now`,
mismatching strings must raise ValueError.
"""
from __future__ import annotations

import datetime as dt
import importlib
import sys

from pvmon import gen
from pvmon.common import US, fields, inst, off_us, us_to_fields
from pvmon.oracle import tzdb

PLAN = {
    "quick": {"configs": ["ext1", "ext0"], "nshards": 10, "nshards_ext0": 6, "timeout": 900},
    "thorough": {"configs": ["ext1", "ext0"], "nshards": 16, "timeout": 3400, "suite": ["ext1"]},
}
DECIDING = ["token", "token.hook", "format.whole", "named", "roundtrip", "roundtrip.locale", "partial", "mismatch", "concurrent"]
FLOORS = {"quick": {"token": 300000, "format.whole": 30000, "named": 20000, "roundtrip": 30000, "roundtrip.locale": 10000, "partial": 5000,
                    "mismatch": 10000, "concurrent": 10000},
          "thorough": {"token": 3 * 10**6, "format.whole": 300000, "named": 200000, "roundtrip": 300000, "roundtrip.locale": 100000,
                       "partial": 50000, "mismatch": 100000}}
REQUIRED_HOOKS = ["pendulum.from_format"]      # Formatter._format_token / Formatter.parse hooks add reach (internal calls); tokens are judged at the boundary
TECHNIQUE = "runtime contract on Formatter._format_token against a per-token reference (strftime + integer arithmetic + the locale's own tables), whole-format and named-format checkers, format->from_format round-trip checker; tokens also judged at the workload boundary; round trips under rotating default locale and week_starts_at configuration (history of configurations); shared objects used by six threads at once (1 us switch interval), every outcome compared with the single-threaded, contract-judged one"
LEVEL_TEXT = ("every token rendered during the workloads is compared with an independent per-token reference; whole formats built from random "
              "token sequences with separators, [escaped] text and backslash escapes are compared with the concatenated reference; named "
              "helpers against strftime compositions; round trips through from_format for full formats (numeric and localized, 27 locales), "
              "partial formats with an injected now, and mismatching strings; held on what was observed")
RULE = ("DateTimes in years 1000..9999 x IANA zones (incl. three-part names and Etc/GMT+5) / whole-minute offsets / UTC x every token x random "
        "token sequences of 2..8 tokens with literal separators, [escaped] text and backslash escapes x 27 locales; round-trip formats = date "
        "form x time form x fraction x offset/zone; distinct = (token or format shape, locale, zone kind, value class); non-trivial = every "
        "case except plain UTC noon values")
ASSUMPTIONS = ["trusted base: CPython datetime.strftime (C locale) and integer arithmetic; locale tables read from the locale modules",
               "excluded from round trips: a token used twice, Do in locales without ordinal suffixes, X/x (a timestamp overrides the rest), "
               "YY outside 1969..2068, tokens without a parse rule, second-granular offsets, adjacent variable-width numeric tokens, locales "
               "whose names are not unique at the given width"]


def data(loc):
    return importlib.import_module(f"pendulum.locales.{loc}.locale").locale


def dig(d, key):
    cur = d
    for part in key.split("."):
        try:
            cur = cur[part]
        except (KeyError, TypeError, IndexError):
            return None
    return cur


def ordinalize(D, n):
    suf = dig(D, "custom.ordinal." + D["ordinal"](n))
    return f"{n}{suf}" if suf else f"{n}"


def ref_token(x, tok, D):
    """reference rendering of one token for DateTime x with locale data D; None = no reference"""
    n = dt.datetime(*fields(x))      # naive twin for strftime
    us = x.microsecond
    if tok in ("YYYY", "Y"):
        return str(x.year)
    if tok == "YY":
        return n.strftime("%y") if x.year >= 1000 else None
    if tok == "Q":
        return str((x.month - 1) // 3 + 1)
    if tok == "MM":
        return n.strftime("%m")
    if tok == "M":
        return str(int(n.strftime("%m")))
    if tok == "DD":
        return n.strftime("%d")
    if tok == "D":
        return str(int(n.strftime("%d")))
    if tok == "DDDD":
        return n.strftime("%j")
    if tok == "DDD":
        return str(int(n.strftime("%j")))
    if tok == "d":
        return n.strftime("%w")
    if tok == "E":
        return n.strftime("%u")
    if tok == "HH":
        return n.strftime("%H")
    if tok == "H":
        return str(int(n.strftime("%H")))
    if tok == "hh":
        return n.strftime("%I")
    if tok == "h":
        return str(int(n.strftime("%I")))
    if tok == "mm":
        return n.strftime("%M")
    if tok == "m":
        return str(int(n.strftime("%M")))
    if tok == "ss":
        return n.strftime("%S")
    if tok == "s":
        return str(int(n.strftime("%S")))
    if tok in ("S", "SS", "SSS", "SSSS", "SSSSS", "SSSSSS"):
        return ("%06d" % us)[:len(tok)]
    if tok in ("Z", "ZZ"):
        if x.tzinfo is None:
            return ""
        o = off_us(x) // US
        sign = "-" if o < 0 else "+"
        h, m = divmod(abs(o) // 60, 60)
        return f"{sign}{h:02d}{':' if tok == 'Z' else ''}{m:02d}"
    if tok == "z":
        return x.tzinfo.name if x.tzinfo is not None and hasattr(x.tzinfo, "name") else ""
    if tok == "zz":
        if x.tzinfo is None:
            return ""
        key = getattr(x.tzinfo, "key", None)
        if key:
            import zoneinfo

            return dt.datetime(*fields(x), tzinfo=zoneinfo.ZoneInfo(key), fold=x.fold).strftime("%Z")
        return x.tzinfo.name
    if tok == "X":
        return str(inst(x) // US) if x.tzinfo is not None else None
    if tok == "x":
        return str(inst(x) // 1000) if x.tzinfo is not None else None
    wd = n.weekday()
    if tok == "MMMM":
        return dig(D, "translations.months.wide")[x.month]
    if tok == "MMM":
        return dig(D, "translations.months.abbreviated")[x.month]
    if tok == "dddd":
        return dig(D, "translations.days.wide")[wd]
    if tok == "ddd":
        return dig(D, "translations.days.abbreviated")[wd]
    if tok == "dd":
        return dig(D, "translations.days.short")[wd]
    if tok == "A":
        return dig(D, "translations.day_periods." + ("pm" if x.hour >= 12 else "am"))
    if tok == "Do":
        return ordinalize(D, x.day)
    if tok == "Mo":
        return ordinalize(D, x.month)
    if tok == "Qo":
        return ordinalize(D, (x.month - 1) // 3 + 1)
    if tok == "DDDo":
        return ordinalize(D, int(n.strftime("%j")))
    if tok == "do":
        return ordinalize(D, int(n.strftime("%w")))
    if tok == "wo":
        return ordinalize(D, n.isocalendar()[1])
    return None


TOKENS = ["YYYY", "YY", "Y", "Q", "MM", "M", "DD", "D", "DDDD", "DDD", "d", "E", "HH", "H", "hh", "h", "mm", "m", "ss", "s", "S", "SS", "SSS", "SSSS",
          "SSSSS", "SSSSSS", "A", "Z", "ZZ", "z", "zz", "X", "x", "Qo", "Mo", "Do", "DDDo", "do", "wo", "MMMM", "MMM", "dddd", "ddd", "dd"]
LOCALIZED = {"A", "Qo", "Mo", "Do", "DDDo", "do", "wo", "MMMM", "MMM", "dddd", "ddd", "dd"}
SEPS = [" ", "-", "/", ":", ", ", ".", " | ", "_", "T", "#"]


def setup(M):
    import pendulum

    M.pendulum = pendulum
    P = pendulum
    FM = sys.modules["pendulum.formatting.formatter"].Formatter
    LOC = sys.modules["pendulum.locales.locale"].Locale
    import os

    base = os.path.join(os.path.dirname(pendulum.__file__), "locales")
    M.locs = sorted(d for d in os.listdir(base) if os.path.isfile(os.path.join(base, d, "locale.py")))
    M.data = {loc: data(loc) for loc in M.locs}

    def tok_post(ret, a, k, snap):
        x, tok, locale = a[1], a[2], a[3]
        if not isinstance(x, P.DateTime) or not (1000 <= x.year <= 9999):
            return
        ln = getattr(locale, "_locale", None)
        D = M.data.get(ln) or (M.data.get(ln.split("_")[0]) if ln else None)
        if D is None:
            return
        if x.tzinfo is not None and (off_us(x) // US) % 60 and tok in ("Z", "ZZ"):
            return      # statement: whole-minute offsets
        if tok in FM._DATE_FORMATS:
            return      # recursive expansion: its parts are judged token by token
        try:
            exp = ref_token(x, tok, D)
        except Exception:  # noqa: BLE001
            exp = None
        if exp is None:
            M.count("token.no_reference:" + tok)
            return
        M.check("token.hook", ret == exp, f"C08/token:{tok}" + (f":{ln}" if tok in LOCALIZED and ret != exp else ""), "token rendering differs from the reference",
                value=f"{x.isoformat()} fold={x.fold}", token=tok, locale=ln, got=ret, expected=exp)

    M.contract(FM, "_format_token", post=tok_post, label="Formatter._format_token")
    M.contract(FM, "format", post=lambda r, a, k, s: M.count("Formatter.format.calls"), label="Formatter.format")

    def parse_exc(e, a, k, snap):
        if not isinstance(e, ValueError):
            M.count("Formatter.parse.raised." + type(e).__name__)

    M.contract(FM, "parse", post=lambda r, a, k, s: M.count("Formatter.parse.calls"), exc=parse_exc, label="Formatter.parse")
    M.contract(P, "from_format", post=lambda r, a, k, s: M.count("from_format.calls"), label="pendulum.from_format")


# ---------------------------------------------------------------- workload
ZONES3 = ["America/Argentina/Buenos_Aires", "America/Indiana/Indianapolis", "America/Kentucky/Louisville", "America/North_Dakota/Center"]
ZONES_ODD = ["Etc/GMT+5", "Etc/GMT-14", "UTC", "GMT", "EST5EDT", "Asia/Kolkata", "Europe/Paris", "America/New_York", "Australia/Lord_Howe",
             "Asia/Kathmandu", "Pacific/Chatham", "America/St_Johns", "Africa/Casablanca"]


def cases(M):
    r = gen.rng(M)
    thorough = M.tier == "thorough"
    n = (60000 if thorough else 6000) // M.nshards
    if M.shard % 2 == 0:
        yield {"k": "threads", "n": 3000 if thorough else 1000, "seed": r.randrange(1 << 30)}
    yield {"k": "tokens", "n": n * 3, "seed": r.randrange(1 << 30)}
    yield {"k": "formats", "n": n * 5, "seed": r.randrange(1 << 30)}
    yield {"k": "named", "n": n * 2, "seed": r.randrange(1 << 30)}
    yield {"k": "roundtrip", "n": n * 3, "seed": r.randrange(1 << 30)}
    yield {"k": "rtlocale", "n": n, "seed": r.randrange(1 << 30)}
    yield {"k": "partial", "n": n, "seed": r.randrange(1 << 30)}


def _value(M, r, want="any"):
    """-> (DateTime, zone kind)"""
    P = M.pendulum
    lo = (dt.datetime(1000, 1, 2) - dt.datetime(1970, 1, 1)) // dt.timedelta(microseconds=1)
    hi = (dt.datetime(9999, 12, 30) - dt.datetime(1970, 1, 1)) // dt.timedelta(microseconds=1)
    u = r.randrange(lo, hi) if r.random() < 0.5 else gen.modern_instant(r)
    if r.random() < 0.3:
        u = u // US * US + r.choice((0, 1, 999999, 500000, 123000, 100000))
    kind = r.choice(("utc", "fixed", "zone", "zone3", "zoneodd", "naive")) if want == "any" else want
    if kind == "utc":
        return P.DateTime(*us_to_fields(u), tzinfo=P.UTC), kind
    if kind == "naive":
        return P.DateTime(*us_to_fields(u)), kind
    if kind == "fixed":
        off = r.randrange(-1439, 1440) * 60
        return P.DateTime(*us_to_fields(u + off * US), tzinfo=P.tz.timezone.FixedTimezone(off)), kind
    zn = r.choice(ZONES3) if kind == "zone3" else r.choice(ZONES_ODD) if kind == "zoneodd" else r.choice(gen.all_zones())
    f, off, fold = tzdb.Z.get(zn).render(u)
    if off % 60:
        return P.DateTime(*us_to_fields(u), tzinfo=P.UTC), "utc"
    return P.DateTime(*f, tzinfo=P.timezone(zn), fold=fold), kind


def _literal(r):
    # (text in [...] is verbatim whatever it holds: token letters, quotes, backslashes)
    return r.choice(("at", "xx", "the", "o'clock", "week W", "Day", "T", "Y-M", "C:\\logs", "\\d", "a\\\\b", "\\", "(\\Y)") if r.random() < 0.3
                    else ("at", "h", "on", "UTC", "GMT"))


def run(M, c):
    import random

    P = M.pendulum
    r = random.Random(c["seed"])
    k = c["k"]
    if k == "threads":
        # format() / from_format() go through ONE process-wide Formatter object: six threads render and re-parse different
        # values, formats and locales at once; every outcome must be the single-threaded one (judged by the ordinary
        # contracts when the reference pass makes the same calls)
        from pvmon import conc

        fmts = ["YYYY-MM-DDTHH:mm:ss.SSSSSS Z", "dddd D MMMM YYYY HH:mm:ss ZZ", "Do MMM YY, hh:mm A [at] x", "YYYY DDDD E HH mm ss SSS zz z", "LLLL",
                "ddd, DD MMM YYYY HH:mm:ss ZZ", "[Q]Q YYYY-MM-DD HH:mm:ss.SS Z"]
        locs = [None, "en", "fr", "de", "ru", "ja", "tr", "pt_br"]
        items = []
        for i in range(c["n"]):
            x, zk = _value(M, r)
            items.append((x, fmts[i % len(fmts)], locs[(i // 7) % len(locs)]))

        def one(it):
            x, fmt, loc = it
            s_ = x.format(fmt, locale=loc) if loc else x.format(fmt)
            if fmt == fmts[0]:
                y = P.from_format(s_, fmt)
                return (s_, y.isoformat())
            return (s_,)

        conc.differential(M, items, one, "C08/concurrent", show=lambda it: f"{it[0].isoformat()} {it[1]!r} {it[2]}")
        M.cls("threads")
        return
    if k == "tokens":
        for i in range(c["n"]):
            M.progress()
            x, kind = _value(M, r)
            loc = r.choice(M.locs)
            M.current = {"k": "tok", "value": x.isoformat(), "zone": kind, "loc": loc}
            for tok in TOKENS:
                if kind == "naive" and tok in ("X", "x"):
                    continue      # a timestamp is only defined for aware values
                try:
                    got = x.format(tok, locale=loc)          # the private _format_token hook judges internal calls as well
                    if not (x.tzinfo is not None and (off_us(x) // US) % 60 and tok in ("Z", "ZZ")):
                        exp = ref_token(x, tok, M.data[loc])
                        if exp is not None:
                            M.check("token", got == exp, f"C08/token:{tok}" + (f":{loc}" if tok in LOCALIZED and got != exp else ""),
                                    "token rendering differs from the reference", value=f"{x.isoformat()} fold={x.fold}", token=tok, locale=loc, got=got, expected=exp)
                except Exception as e:  # noqa: BLE001
                    M.check("token", False, f"C08/token-raised-{type(e).__name__}:{tok}", "format raised", value=x.isoformat(), token=tok, locale=loc,
                            exc=repr(e)[:120])
            # localized date formats are the recursive expansion of the locale's own format (default when it has none)
            DEF = {"LTS": "h:mm:ss A", "LT": "h:mm A", "L": "MM/DD/YYYY", "LL": "MMMM D, YYYY", "LLL": "MMMM D, YYYY h:mm A", "LLLL": "dddd, MMMM D, YYYY h:mm A"}
            for tok in DEF:
                exp_fmt = dig(M.data[loc], "custom.date_formats." + tok) or DEF[tok]
                try:
                    got, exp = x.format(tok, locale=loc), x.format(exp_fmt, locale=loc)
                except Exception as e:  # noqa: BLE001
                    got, exp = f"<raised {type(e).__name__}>", None
                M.check("token", got == exp and bool(got), f"C08/token:{tok}", "localized date format is not the expansion of the locale's format", value=x.isoformat(),
                        locale=loc, got=got, expected=exp, expansion=exp_fmt)
            if x.tzinfo is not None and i % 2 == 0:
                # the SAME instant expressed in a far-away zone (equal and hash-equal to x, other wall-clock fields), formatted
                # right after x with the same tokens and locale
                try:
                    x2 = gen.mk(("Asia/Tokyo", "America/Los_Angeles", "Pacific/Kiritimati", "Asia/Kolkata")[i // 2 % 4], inst(x))
                except Exception:  # noqa: BLE001
                    x2 = None
                if x2 is not None and 1000 <= x2.year <= 9999:
                    M.current = {"k": "tok-same-instant", "value": x2.isoformat(), "first": x.isoformat(), "loc": loc}
                    for tok in TOKENS:
                        if tok in ("Z", "ZZ") and (off_us(x2) // US) % 60:
                            continue
                        try:
                            got = x2.format(tok, locale=loc)
                            exp = ref_token(x2, tok, M.data[loc])
                            if exp is not None:
                                M.check("token", got == exp, f"C08/token:{tok}:same-instant-other-zone", "token rendering of a value differs from the reference "
                                        "after an equal instant in another zone was formatted", value=x2.isoformat(), first=x.isoformat(), token=tok, locale=loc,
                                        got=got, expected=exp)
                        except Exception as e:  # noqa: BLE001
                            M.check("token", False, f"C08/token-raised-{type(e).__name__}:{tok}", "format raised", value=x2.isoformat(), token=tok, locale=loc)
            M.cls("tok", loc, kind, x.hour >= 12, x.month, x.weekday())
            if i < 2:
                M.sample({"k": "tokens", "value": x.isoformat(), "locale": loc})
        return
    if k == "formats":
        for i in range(c["n"]):
            M.progress()
            x, kind = _value(M, r)
            loc = r.choice(M.locs)
            D = M.data[loc]
            parts, fmt, exp = [], "", ""
            ntok = r.randrange(2, 9)
            for j in range(ntok):
                tok = r.choice(TOKENS)
                rt = ref_token(x, tok, D)
                if rt is None or (tok in ("Z", "ZZ") and x.tzinfo is not None and (off_us(x) // US) % 60):
                    continue
                fmt += tok
                exp += rt
                if j < ntok - 1:
                    kind_sep = r.random()
                    if kind_sep < 0.55:
                        s = r.choice(SEPS)
                        fmt += s
                        exp += s
                    elif kind_sep < 0.85:
                        lit = _literal(r).replace("[", "").replace("]", "")
                        fmt += "[" + lit + "]"
                        exp += lit
                    else:
                        ch = r.choice("YMDHhmsSAZzdEQX")        # not [ or ]: next to a [group] their reading is ambiguous
                        fmt += "\\" + ch + " "
                        exp += ch + " "
            if not fmt:
                continue
            M.current = {"k": "fmt", "value": x.isoformat(), "zone": kind, "loc": loc, "fmt": fmt}
            try:
                got = x.format(fmt, locale=loc)
            except Exception as e:  # noqa: BLE001
                got = f"<raised {type(e).__name__}: {e}>"
            esc = "bracket" if "[" in fmt else "backslash" if "\\" in fmt else "plain"
            M.check("format.whole", got == exp, f"C08/format-whole:{esc}", "format() output differs from tokens + literals + escaped text", fmt=fmt,
                    value=x.isoformat(), locale=loc, got=got, expected=exp)
            M.cls("fmt", ntok, esc, kind)
        return
    if k == "named":
        for i in range(c["n"]):
            M.progress()
            x, kind = _value(M, r, r.choice(("utc", "fixed", "zone", "zoneodd")))
            n = dt.datetime(*fields(x))
            z, zz = ref_token(x, "Z", None), ref_token(x, "ZZ", None)
            tzn = ref_token(x, "zz", None)
            Y = f"{x.year:d}"
            exp = {
                "to_date_string": n.strftime(f"{Y}-%m-%d"), "to_time_string": n.strftime("%H:%M:%S"),
                "to_datetime_string": n.strftime(f"{Y}-%m-%d %H:%M:%S"),
                "to_day_datetime_string": n.strftime(f"%a, %b {x.day}, {Y} {int(n.strftime('%I'))}:%M %p"),
                "to_atom_string": n.strftime(f"{Y}-%m-%dT%H:%M:%S") + z, "to_w3c_string": n.strftime(f"{Y}-%m-%dT%H:%M:%S") + z,
                "to_cookie_string": n.strftime(f"%A, %d-%b-{Y} %H:%M:%S ") + tzn,
                "to_rfc822_string": n.strftime("%a, %d %b %y %H:%M:%S ") + zz, "to_rfc1036_string": n.strftime("%a, %d %b %y %H:%M:%S ") + zz,
                "to_rfc850_string": n.strftime("%A, %d-%b-%y %H:%M:%S ") + tzn,
                "to_rfc1123_string": n.strftime(f"%a, %d %b {Y} %H:%M:%S ") + zz, "to_rfc2822_string": n.strftime(f"%a, %d %b {Y} %H:%M:%S ") + zz,
                "to_rss_string": n.strftime(f"%a, %d %b {Y} %H:%M:%S ") + zz,
            }
            M.current = {"k": "named", "value": x.isoformat(), "zone": kind}
            for name, e in exp.items():
                try:
                    got = getattr(x, name)()
                except Exception as ex:  # noqa: BLE001
                    got = f"<raised {type(ex).__name__}>"
                M.check("named", got == e, f"C08/named:{name}", "named format helper is not its documented composition", value=x.isoformat(), got=got,
                        expected=e)
            M.cls("named", kind, x.month, x.weekday(), x.hour >= 12)
        return
    if k in ("roundtrip", "rtlocale"):
        for i in range(c["n"]):
            M.progress()
            _roundtrip(M, r, localized=(k == "rtlocale"))
        return
    if k == "partial":
        for i in range(c["n"]):
            M.progress()
            _partial(M, r)
        return


DATE_FORMS = [("YYYY{s}MM{s}DD", None), ("DD{s}MM{s}YYYY", None), ("YYYY{s}M{s}D", "sep"), ("YYYY{s}DDDD", None), ("YY{s}MM{s}DD", "yy"),
              ("Y{s}MM{s}DD", "sep"), ("YYYY{s}DDD", "sep"), ("E YYYY{s}MM{s}DD", None), ("YYYY{s}MM{s}DD d", "wd"), ("E, DD{s}MM{s}YYYY", None)]
LDATE_FORMS = ["dddd D MMMM YYYY", "ddd, D MMM YYYY", "MMMM D, YYYY", "D MMM YYYY", "YYYY MMMM DD", "dd DD MMM YYYY", "Do MMMM YYYY"]
TIME_FORMS = [("HH{t}mm{t}ss", None), ("H{t}m{t}s", "sep"), ("hh{t}mm{t}ss A", None), ("h{t}mm{t}ss A", "sep"), ("HH{t}mm", "nosec")]
FRACS = [("", 0), (".SSSSSS", 6), (".SSS", 3), (".S", 1), (",SSSSSS", 6), (" SSSSS", 5)]
TZF = ["Z", "ZZ", "z", ""]
DEFAULT_LOCALE_FORMATS = ["dddd D MMMM YYYY HH:mm:ss.SSSSSS Z", "ddd, D MMM YYYY HH:mm:ss.SSSSSS Z", "MMMM D, YYYY [at] HH:mm:ss.SSSSSS Z",
                          "Do MMMM YYYY HH:mm:ss.SSSSSS Z", "YYYY MMMM DD HH:mm:ss.SSSSSS Z", "dddd, MMMM D YYYY, h:mm:ss.SSSSSS A Z"]


def _roundtrip(M, r, localized):
    P = M.pendulum
    x, kind = _value(M, r, r.choice(("utc", "fixed", "zone", "zone3", "zoneodd")))
    loc = r.choice(M.locs) if localized else "en"
    D = M.data[loc]
    s1 = r.choice(("-", "/", " ", "."))
    t1 = r.choice((":", ".", " ")) if not localized else ":"
    if localized:
        dform, dflag = r.choice(LDATE_FORMS), None
        if "Do" in dform and not dig(D, "custom.ordinal"):
            dform = "D MMMM YYYY"
        # skip locales whose names are not unique at this width (documented exclusion)
        for tok, key in (("MMMM", "months.wide"), ("MMM", "months.abbreviated"), ("dddd", "days.wide"), ("ddd", "days.abbreviated"), ("dd", "days.short")):
            if tok in dform.replace("MMMM", "@" if tok != "MMMM" else "MMMM").replace("dddd", "@" if tok != "dddd" else "dddd"):
                vals = list(dig(D, "translations." + key).values())
                if len(set(v.lower() for v in vals)) != len(vals):
                    M.count("roundtrip.locale_names_not_unique_skipped")
                    return
    else:
        dform, dflag = r.choice(DATE_FORMS)
        dform = dform.format(s=s1)
    tform, tflag = r.choice(TIME_FORMS)
    tform = tform.format(t=t1)
    frac, nd = r.choice(FRACS) if tflag != "nosec" else ("", 0)
    tzf = r.choice(TZF)
    if dflag == "yy" and not (1969 <= x.year <= 2068):
        dform = "YYYY-MM-DD"
    if tzf == "z" and kind == "fixed":
        tzf = "Z"
    if dflag == "wd" and tzf in ("z", ""):
        tzf = "Z"       # the open finding on `d` moves the date: with an explicit offset no zone rule re-normalises the moved value
    # (literal text is emitted and matched verbatim, whatever its Unicode normalisation form: decomposed accent, ANGSTROM/OHM SIGN, jamo)
    glue = r.choice((" ", "T", " [at] ", " [the time is] ", ", ", " [xx] ", " [cafe\u0301] ", " [\u212b\u2126] ", " \u212b ", " [\u1112\u1161\u11ab] ",
                     " [C:\\logs] ", " [\\d] ")) if r.random() < 0.5 else " "
    fmt = dform + glue + tform + frac + ((" " + tzf) if tzf else "")
    if localized and "dd" not in fmt and r.random() < 0.35:
        # the weekday name as the very last thing in the string (names that are prefixes of one another: tr Cuma / Cumartesi)
        wtok = r.choice(("dddd", "ddd"))
        vals = list(dig(D, "translations.days." + ("wide" if wtok == "dddd" else "abbreviated")).values())
        if len(set(v.lower() for v in vals)) == len(vals):
            fmt = fmt + " " + wtok
    # what survives the trip
    us = x.microsecond // 10 ** (6 - nd) * 10 ** (6 - nd) if nd else 0
    sec = 0 if tflag == "nosec" else x.second
    want_fields = fields(x)[:5] + (sec, us)
    M.current = {"k": "rt", "value": x.isoformat(), "zone": kind, "loc": loc, "fmt": fmt}
    mon = "roundtrip.locale" if localized else "roundtrip"
    esc = "bracket" if "[" in fmt else "plain"
    zsig = tzf or "notz"
    zname = getattr(x.tzinfo, "name", "")
    if tzf == "z" and zname.count("/") >= 2:
        zsig = "z:three-part-zone-name"
    # half of the localized trips select the locale through the process-wide default (set_locale) instead of the
    # locale= argument: the same format string is then parsed under changing defaults (history of configurations)
    via_default = localized and r.random() < 0.5
    if via_default:
        # a small fixed set of formats, so that the SAME format string meets many default locales in one process
        fmt = r.choice(DEFAULT_LOCALE_FORMATS)
        nd = 6
        us = x.microsecond
        sec = x.second
        want_fields = fields(x)[:5] + (sec, us)
        tzf = "Z"
        esc = "bracket" if "[" in fmt else "plain"
        zsig = "Z"
        if "Do" in fmt and not dig(D, "custom.ordinal"):
            return
        for tok, key in (("MMMM", "months.wide"), ("dddd", "days.wide"), ("MMM", "months.abbreviated"), ("ddd", "days.abbreviated")):
            if tok in fmt:
                vals = list(dig(D, "translations." + key).values())
                if len(set(v.lower() for v in vals)) != len(vals):
                    return
    # process-wide week configuration: the weekday written in a full date must still lead back to that date
    wkcfg = None
    if dflag != "wd" and any(t in fmt for t in ("dd", "E")) and r.random() < 0.4:   # (the open finding on `d` is classified under the default week only)
        wkcfg = r.randrange(7)
        P.week_starts_at(P.WeekDay(wkcfg))
        P.week_ends_at(P.WeekDay((wkcfg - 1) % 7))
    try:
        return _roundtrip_call(M, P, x, kind, loc, fmt, tzf, via_default, localized, mon, esc, zsig, want_fields, dflag, dform, tflag, nd, r)
    finally:
        if wkcfg is not None:
            P.week_starts_at(P.MONDAY)
            P.week_ends_at(P.SUNDAY)


def _roundtrip_call(M, P, x, kind, loc, fmt, tzf, via_default, localized, mon, esc, zsig, want_fields, dflag, dform, tflag, nd, r):
    D = M.data[loc]
    try:
        if via_default:
            P.set_locale(loc)
            try:
                s = x.format(fmt)
                tzarg = x.tzinfo if not tzf else P.UTC
                y = P.from_format(s, fmt, tz=tzarg)
            finally:
                P.set_locale("en")
        else:
            s = x.format(fmt, locale=loc)
            tzarg = x.tzinfo if not tzf else P.UTC
            y = P.from_format(s, fmt, tz=tzarg, locale=loc)
    except Exception as e:  # noqa: BLE001
        M.check(mon, False, f"C08/roundtrip:raised-{type(e).__name__}:{esc}:{zsig}" + (":localized" if localized else "") + (":default-locale" if via_default else ""), "from_format(format(x)) raised",
                fmt=fmt, value=x.isoformat(), locale=loc, exc=repr(e)[:160])
        return
    got = (fields(y), off_us(y) if y.tzinfo else None)
    want = (want_fields, off_us(x))
    if tzf in ("z", "") and kind in ("zone", "zone3", "zoneodd"):
        from pvmon.common import wall_us as _w

        if tzdb.Z.get(x.tzinfo.key).classify_wall(_w(dt.datetime(*want_fields)))[0] != "once":
            # a repeated wall time written without its offset cannot say which occurrence it is
            M.count("roundtrip.ambiguous_wall_time_without_offset_skipped")
            return
    okf = got[0] == want[0] and (got[1] == want[1] or (not tzf))
    if not tzf:
        okf = got[0] == want[0] and y.timezone_name == x.timezone_name
    vsig = f"C08/roundtrip:value:{esc}:{zsig}" + (":localized" if localized else "")
    if not okf and dflag == "wd":
        # mechanism classifier for the recorded finding: `d` is rendered 0=Sunday..6=Saturday but parsed as 0=Monday..6=Sunday,
        # so the date moves to the next weekday inside its Monday-based week (+1 day, Sunday -> Monday six days back)
        d0, d1 = dt.date(*want[0][:3]), dt.date(*got[0][:3])
        shifted = (d1 - d0).days == (-6 if d0.weekday() == 6 else 1)
        same_time = got[0][3:] == want[0][3:] and (got[1] == want[1] or tzf in ("", "z"))
        if shifted and not same_time and tzf in ("", "z") and kind in ("zone", "zone3", "zoneodd"):
            # the shifted date may be a day on which this wall time is skipped or repeated in the zone: renormalised there
            from pvmon.common import wall_us as _w2

            same_time = tzdb.Z.get(x.tzinfo.key).classify_wall(_w2(dt.datetime(*(d1.timetuple()[:3] + tuple(want[0][3:])))))[0] != "once"
        if shifted and same_time:
            vsig = "C08/roundtrip:token-d:parsed-monday-based"
    M.check(mon, okf, vsig, "from_format(format(x)) is not x", fmt=fmt, string=s,
            value=x.isoformat(), got=[list(got[0]), got[1]], expected=[list(want[0]), want[1]])
    M.cls(mon, dform if localized else dflag, tflag, nd, tzf, esc, kind, loc if localized else "")
    # a string that does not match must raise ValueError
    bads = [(s + "!", "trailing"), ("!" + s, "leading")]
    zname_ = getattr(x.tzinfo, "name", "") or ""
    if tzf == "z" and zname_ and s.endswith(zname_):
        # zone names that are not zones: a directory of the tz database (the name cut at a "/"), a misspelt name
        head = s[: -len(zname_)]
        if "/" in zname_:
            bads.append((head + zname_.rsplit("/", 1)[0], "zone-directory"))
            bads.append((head + zname_.split("/", 1)[0], "zone-directory"))
        bads.append((head + zname_ + "x", "zone-misspelt"))
        bads.append((head + zname_[:-1], "zone-truncated") if zname_[:-1] not in M.pendulum.timezones() else (s + "!", "trailing"))
    for bad_s, why in bads:
        try:
            P.from_format(bad_s, fmt, locale=loc)
            M.check("mismatch", False, f"C08/mismatch-accepted:{why}", "a string that does not match the format was accepted", fmt=fmt, string=bad_s)
        except ValueError:
            M.ev("mismatch")
        except Exception as e:  # noqa: BLE001
            M.check("mismatch", False, f"C08/mismatch-raised-{type(e).__name__}:{esc}", "a non-matching string raised something else than ValueError", fmt=fmt,
                    string=bad_s, exc=repr(e)[:120])


def _partial(M, r):
    """fields absent from the format are filled from the supplied now"""
    P = M.pendulum
    FM = sys.modules["pendulum.formatting.formatter"].Formatter
    x, _ = _value(M, r, "utc")
    now, _ = _value(M, r, "utc")
    forms = [("YYYY", {"year": x.year, "month": 1, "day": 1}), ("YYYY-MM", {"year": x.year, "month": x.month, "day": 1}),
             ("MM-DD", {"year": now.year, "month": x.month, "day": x.day}), ("DD", {"year": now.year, "month": now.month, "day": x.day}),
             ("MM", {"year": now.year, "month": x.month, "day": 1}), ("HH:mm", {"year": now.year, "month": now.month, "day": now.day, "hour": x.hour, "minute": x.minute}),
             ("YYYY-MM-DD HH", {"year": x.year, "month": x.month, "day": x.day, "hour": x.hour}), ("HH:mm:ss.SSS", {"year": now.year, "month": now.month, "day": now.day,
                                                                                                      "hour": x.hour, "minute": x.minute, "second": x.second, "microsecond": x.microsecond // 1000 * 1000})]
    fmt, want = r.choice(forms)
    if "DD" in fmt and "MM" not in fmt and x.day > 28:
        return
    if fmt == "MM-DD" and (x.month, x.day) == (2, 29):
        return
    full = {"year": None, "month": None, "day": None, "hour": 0, "minute": 0, "second": 0, "microsecond": 0}
    full.update(want)
    M.current = {"k": "partial", "fmt": fmt, "value": x.isoformat(), "now": now.isoformat()}
    try:
        s = x.format(fmt)
        got = FM().parse(s, fmt, now)
    except Exception as e:  # noqa: BLE001
        M.check("partial", False, f"C08/partial:raised-{type(e).__name__}", "parsing a partial format raised", fmt=fmt, exc=repr(e)[:120])
        return
    g = {k_: got[k_] for k_ in full}
    M.check("partial", g == full, f"C08/partial:{fmt}", "fields absent from the format are not filled from the supplied now", fmt=fmt, string=s, now=now.isoformat(),
            got=g, expected=full)
    M.cls("partial", fmt, now.month, x.month)
