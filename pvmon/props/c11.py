"""C11 — DateTime, Date and Time are drop-in replacements for the native classes.

Differential monitor against the native twin (same fields, same fold, same tzinfo object
for ==/hash/ordering/subtraction; a plain zoneinfo.ZoneInfo twin for the value accessors)
for every standard-library accessor and operator; ordering vs the ordering of instants;
return types of the overriding methods (contracts on the overrides count their calls).
"""
from __future__ import annotations

import datetime as dt
import operator as op
import zoneinfo

from pvmon import gen
from pvmon.common import US, fields, inst, td_us, us_to_fields, wall_us
from pvmon.oracle import tzdb

PLAN = {
    "quick": {"configs": ["ext1", "ext0"], "nshards": 12, "nshards_ext0": 4, "timeout": 900, "tz": ["UTC", "America/New_York", "Europe/Paris", "Australia/Lord_Howe"]},
    "thorough": {"configs": ["ext1", "ext0"], "nshards": 16, "timeout": 3400, "suite": ["ext1"], "tz": ["UTC", "America/New_York", "Europe/Paris", "Australia/Lord_Howe"]},
}
DECIDING = ["dt.accessors", "dt.eq_hash", "dt.pairs", "dt.order_instants", "dt.sub", "types", "date.accessors", "date.pairs",
            "time.accessors", "time.pairs"]
FLOORS = {"quick": {"dt.accessors": 300000, "dt.eq_hash": 20000, "dt.pairs": 100000, "dt.order_instants": 50000, "dt.sub": 10000,
                    "types": 50000, "date.accessors": 20000, "date.pairs": 5000, "time.accessors": 20000, "time.pairs": 5000},
          "thorough": {"dt.accessors": 3 * 10**6, "dt.eq_hash": 200000, "dt.pairs": 10**6, "dt.order_instants": 500000, "dt.sub": 100000,
                       "types": 500000, "date.accessors": 200000, "date.pairs": 50000, "time.accessors": 200000, "time.pairs": 50000}}
REQUIRED_HOOKS = []
TECHNIQUE = "differential runtime monitor against the native twin (same fields/fold/tzinfo) for every stdlib accessor and operator, plus instant-order and return-type checks; astimezone() into stdlib fixed/named, user-defined DST, zoneinfo and dateutil targets compared by full views; shards run under rotating process-local zones (TZ) for naive values, which are also re-read after set_local_timezone() and after a TZ change (hidden local-zone history)"
LEVEL_TEXT = ("every listed accessor/operator is evaluated on the pendulum object and on its native twin and compared; values sit on and "
              "around every transition of every zone in both folds, pairs include same-zone, cross-zone and pendulum x native in both "
              "orders; held on what was observed")
RULE = ("DateTimes at the transition probes of every zone (both folds) + random + fixed offsets + naive; 22 accessors; pairs within a "
        "window (same zone / different zones / pendulum x native both orders) for 6 comparisons, hash, subtraction; Dates and Times "
        "(aware and naive); distinct = (zone, transition index, probe) for values and (zone pair kind, probe pair) for pairs; "
        "non-trivial = value within one gap-length of a transition, or pair in different zones, or aware Time")
ASSUMPTIONS = ["trusted base: CPython datetime and zoneinfo", "timetz() and str() are not in the statement's list and are not judged",
               "subtraction is compared with the native answer only where the native subtraction is instant based (distinct tzinfo objects or equal offsets)"]

FMT = "%Y-%m-%d %H:%M:%S.%f %z %Z %j %a %A %U %W %G %V %u %p %I %y %b %B %c %x %X"
ACC = [("isoformat", lambda d: d.isoformat()), ("isoformat_sep_ms", lambda d: d.isoformat(" ", "milliseconds")),
       ("isoformat_minutes", lambda d: d.isoformat(timespec="minutes")), ("strftime", lambda d: d.strftime(FMT)),
       ("timetuple", lambda d: tuple(d.timetuple())), ("utctimetuple", lambda d: tuple(d.utctimetuple())),
       ("toordinal", lambda d: d.toordinal()), ("weekday", lambda d: d.weekday()), ("isoweekday", lambda d: d.isoweekday()),
       ("isocalendar", lambda d: tuple(d.isocalendar())), ("timestamp", lambda d: d.timestamp()), ("utcoffset", lambda d: d.utcoffset()),
       ("tzname", lambda d: d.tzname()), ("dst", lambda d: d.dst()), ("ctime", lambda d: d.ctime()),
       ("date()", lambda d: fields(d.date())), ("time()", lambda d: fields(d.time())),
       ("astimezone(utc)", lambda d: (fields(d.astimezone(dt.timezone.utc)), d.astimezone(dt.timezone.utc).utcoffset())),
       ("astimezone(zi)", lambda d: d.astimezone(zoneinfo.ZoneInfo("Asia/Kathmandu")).isoformat()),
       ("fold", lambda d: d.fold), ("fields", fields)]


class _RuleTz(dt.tzinfo):
    """a user-defined tzinfo in the style of the datetime documentation: standard offset, DST from April to October"""
    def __init__(self, hours, name):
        self._std, self._name = dt.timedelta(hours=hours), name

    def utcoffset(self, d):
        return self._std + self.dst(d)

    def dst(self, d):
        return dt.timedelta(hours=1) if d is not None and 4 <= d.month <= 10 else dt.timedelta(0)

    def tzname(self, d):
        return self._name + ("-summer" if self.dst(d) else "")


def _view(d):
    return (d.isoformat(), d.tzname(), d.dst(), d.utcoffset(), tuple(d.timetuple()), d.strftime("%Z %z"), d.ctime())


_TARGETS = [("timezone.utc", dt.timezone.utc), ("timezone(+05:30)", dt.timezone(dt.timedelta(hours=5, minutes=30))),
            ("timezone(-03:00,'XYZ')", dt.timezone(dt.timedelta(hours=-3), "XYZ")), ("custom-rule-tzinfo", _RuleTz(-5, "RULE")),
            ("zoneinfo", zoneinfo.ZoneInfo("Europe/Dublin"))]
try:
    import dateutil.tz as _dtz

    _TARGETS.append(("dateutil", _dtz.gettz("Europe/Paris")))
except Exception:  # noqa: BLE001
    pass
ACC += [("timetz()", lambda d: (lambda t: (t.isoformat(), t.utcoffset(), t.tzname(), t.dst(), t.tzinfo is None, t.fold))(d.timetz()))]
# the format() protocol with strftime specifications, also where every directive sits inside square brackets
_SPECS = ["%Y-%m-%d %H:%M:%S", "[%Y-%m-%d %H:%M:%S]", "[%H:%M:%S.%f]", "[log] %H:%M", "[%a] %d %b [%Y]", "%%Y [%j]", ""]
ACC += [("format(%r)" % sp, (lambda sp: (lambda d: (format(d, sp), "{:{}}".format(d, sp) if sp else "{}".format(d))))(sp)) for sp in _SPECS]
ACC += [("astimezone[%s]" % n, (lambda t: (lambda d: _view(d.astimezone(t))))(t)) for n, t in _TARGETS]
_NAIVE_ACC = [a for a in ACC if a[0] in ("timestamp", "utctimetuple", "astimezone(utc)", "astimezone(zi)", "isoformat", "utcoffset", "tzname")
              or a[0].startswith("astimezone[")]
DACC = [("isoformat", lambda d: d.isoformat()), ("strftime",lambda d: d.strftime("%Y-%m-%d %j %a %A %U %W %G %V %u %y %b %B %x")),
        ("timetuple", lambda d: tuple(d.timetuple())), ("toordinal", lambda d: d.toordinal()), ("weekday", lambda d: d.weekday()),
        ("isoweekday", lambda d: d.isoweekday()), ("isocalendar", lambda d: tuple(d.isocalendar())), ("ctime", lambda d: d.ctime()),
        ("hash", hash)]
DACC_EXTRA = [("format(%r)" % sp, (lambda sp: (lambda d: format(d, sp)))(sp)) for sp in ("%Y-%m-%d", "[%Y-%m-%d]", "[%a] %d %b [%Y]", "[x] %j")]
TACC_EXTRA = [("format(%r)" % sp, (lambda sp: (lambda t: format(t, sp)))(sp)) for sp in ("%H:%M:%S", "[%H:%M:%S.%f]", "[at] %H.%M", "[%p]")]
TACC = [("isoformat", lambda t: t.isoformat()), ("isoformat_ms", lambda t: t.isoformat("milliseconds")),
        ("strftime", lambda t: t.strftime("%H:%M:%S.%f %z %Z %p %I")), ("utcoffset", lambda t: t.utcoffset()), ("tzname", lambda t: t.tzname()),
        ("dst", lambda t: t.dst()), ("hash", hash), ("fields", fields)]
DACC += DACC_EXTRA
TACC += TACC_EXTRA
OPS = [("lt", op.lt), ("le", op.le), ("gt", op.gt), ("ge", op.ge), ("eq", op.eq), ("ne", op.ne)]


def _call(f, x):
    try:
        return ("ok", f(x))
    except Exception as e:  # noqa: BLE001
        return ("exc", type(e).__name__)


def setup(M):
    import pendulum

    M.pendulum = pendulum
    P = pendulum

    def counter(name):
        def post(ret, a, k, snap):
            M.count("override." + name)
        return post

    for cls, names in ((P.DateTime, ("date", "time", "astimezone", "replace", "combine", "fromtimestamp", "utcfromtimestamp",
                                     "fromordinal", "strptime", "__sub__", "__rsub__")),
                       (P.Date, ("replace", "fromtimestamp", "fromordinal", "today", "__sub__")), (P.Time, ("replace",))):
        for n in names:
            if n in cls.__dict__:
                M.contract(cls, n, post=counter(f"{cls.__name__}.{n}"), label=f"{cls.__name__}.{n}")


def cases(M):
    r = gen.rng(M)
    thorough = M.tier == "thorough"
    names = gen.all_zones()
    zones = gen.hostile(names)[M.shard::M.nshards] if (M.config == "ext0" and not thorough) else gen.shard_zones(M, names)
    for zn in zones:
        z = tzdb.Z.get(zn)
        for i, (t, ob, oa, _) in enumerate(z.trans):
            pr = [(pk, u) for pk, u in gen.probe_instants(t, ob, oa) if gen.ok_instant(u)]
            g = abs(oa - ob) * US
            if gen.ok_instant(t * US):
                pr += [("mid-", t * US - g // 2), ("mid+", t * US + g // 2)]
            if not pr:
                continue
            for pk, u in (pr if thorough else r.sample(pr, min(3, len(pr)))):
                yield {"k": "val", "z": zn, "u": u, "ti": i, "pk": pk}
            for _ in range(4 if thorough else 2):
                (pa, ua), (pb, ub) = r.choice(pr), r.choice(pr)
                zb = zn if r.random() < 0.6 else r.choice(names)
                yield {"k": "pair", "za": zn, "zb": zb, "ua": ua, "ub": ub if zb == zn else ub + r.randrange(-3, 4) * 3600 * US, "ti": i, "pa": pa, "pb": pb}
    for j in range(50000 if thorough else 5000):
        kind = ("val", "fixed", "naive", "date", "time", "timetz", "pair")[j % 7]
        yield {"k": kind, "z": r.choice(names), "u": gen.random_instant(r), "ti": -1, "pk": "rand", "off": r.choice((r.randrange(-86399, 86400), r.randrange(-1439, 1440) * 60)),
               "za": r.choice(names), "zb": r.choice(names), "ua": gen.modern_instant(r), "ub": gen.modern_instant(r), "pa": "r", "pb": "r"}


def _twins(M, zn, u):
    P = M.pendulum
    f, off, fold = tzdb.Z.get(zn).render(u)
    p = P.DateTime(*f, tzinfo=P.timezone(zn), fold=fold)
    t1 = dt.datetime(*f, tzinfo=p.tzinfo, fold=fold)                  # same tzinfo object
    t2 = dt.datetime(*f, tzinfo=zoneinfo.ZoneInfo(zn), fold=fold)     # plain zoneinfo
    return p, t1, t2


def _acc(M, mon, accs, p, twins, sigp, **ctx):
    for name, f in accs:
        a = _call(f, p)
        for tag, t in twins:
            b = _call(f, t)
            M.check(mon, a == b, f"C11/{sigp}:{name}:{tag}", f"{name} differs from the native twin", got=a, native=b, **ctx)


def run(M, c):
    P = M.pendulum
    k = c["k"]
    M.sample(c)
    if k == "val":
        p, t1, t2 = _twins(M, c["z"], c["u"])
        M.cls("val", c["z"], c["ti"], c["pk"])
        ctx = {"value": f"{p.isoformat()} fold={p.fold}"}
        _acc(M, "dt.accessors", ACC, p, (("same-tzinfo", t1), ("zoneinfo", t2)), "DateTime", **ctx)
        ok = p == t1 and t1 == p and hash(p) == hash(t1) and not (p != t1) and p <= t1 and p >= t1 and not (p < t1)
        M.check("dt.eq_hash", ok, "C11/DateTime:eq-hash-twin", "not equal/hash-equal to the native twin", **ctx)
        # methods that must return pendulum types
        res = {"date()": (p.date(), P.Date), "time()": (p.time(), P.Time), "astimezone": (p.astimezone(dt.timezone.utc), P.DateTime),
               "replace": (p.replace(microsecond=1), P.DateTime), "combine": (P.DateTime.combine(p.date(), p.time()), P.DateTime),
               "fromtimestamp": (P.DateTime.fromtimestamp(c["u"] // US, P.UTC), P.DateTime),
               "fromordinal": (P.DateTime.fromordinal(p.toordinal()), P.DateTime),
               "strptime": (P.DateTime.strptime("%04d-%02d-%02d %02d:%02d:%02d" % fields(t1)[:6], "%Y-%m-%d %H:%M:%S"), P.DateTime),
               "date.replace": (p.date().replace(day=1), P.Date), "time.replace": (p.time().replace(second=1), P.Time)}
        for n, (v, ty) in res.items():
            M.check("types", type(v) is ty, f"C11/type:{n}", f"{n} does not return the pendulum type", got=type(v).__name__, **ctx)
        return
    if k in ("fixed", "naive"):
        if k == "fixed" and c["u"] % 3 == 0:
            # the tzinfo is a standard-library one (what fromisoformat(), astimezone(timezone(..)) and the plain constructor
            # leave on a DateTime), not one of pendulum's classes
            tz = dt.timezone(dt.timedelta(seconds=c["off"])) if c["u"] % 2 else zoneinfo.ZoneInfo(("Europe/Paris", "Asia/Kolkata", "America/St_Johns")[c["u"] // 6 % 3])
            F = us_to_fields(c["u"] + (c["off"] if c["u"] % 2 else 0) * US)
            k = "fixed-stdlib-tzinfo"
        elif k == "fixed":
            tz = P.tz.timezone.FixedTimezone(c["off"])
            F = us_to_fields(c["u"] + c["off"] * US)
        else:
            tz, F = None, us_to_fields(c["u"])
        fold = 0
        ltz = (getattr(M, "spec", None) or {}).get("tz")
        if k == "naive" and ltz and ltz != "UTC" and c["u"] % 2:
            # a naive value is resolved by the platform in the process-local zone (TZ of this shard): wall times around
            # that zone's transitions (inside its gaps and overlaps, both folds) must still answer like the native twin
            lz = tzdb.Z.get(ltz)
            t, ob, oa, _ = lz.trans[c["u"] // 2 % len(lz.trans)]
            w = (t + (ob, oa)[c["u"] // 4 % 2]) * US + (-3600 * US, -1800 * US, -1, 0, 1, 900 * US, 1800 * US)[c["u"] // 8 % 7]
            if gen.ok_instant(w):
                F, fold = us_to_fields(w), c["u"] // 64 % 2
                k = "naive-local-transition"
        p = P.DateTime(*F, tzinfo=tz, fold=fold)
        t1 = dt.datetime(*F, tzinfo=tz, fold=fold)
        M.cls(k, c["off"] % 60 == 0)
        # (for a naive value timestamp()/astimezone()/utctimetuple() go through the platform's local time in both classes)
        _acc(M, "dt.accessors", ACC, p, (("same-tzinfo", t1),), "DateTime-" + k, value=p.isoformat())
        M.check("dt.eq_hash", p == t1 and hash(p) == hash(t1), f"C11/DateTime-{k}:eq-hash-twin", "not equal/hash-equal to twin", value=p.isoformat())
        if tz is None and c["u"] % 3 == 0:
            # hidden process-wide state the native class knows nothing about: (a) pendulum's own notion of the local zone is
            # replaced (set_local_timezone, what test_local_timezone() does); (b) the process-local zone itself changes
            # (TZ + tzset) after pendulum has already resolved and memoised "the local timezone".  A naive value goes
            # through the platform's local time in the native class, so the pendulum value must keep answering like it.
            import os as _os
            import time as _time

            P.local_timezone()                     # make sure the memo exists before the environment changes
            other = ("Asia/Tokyo", "America/St_Johns", "Pacific/Chatham", "Europe/London")[c["u"] // 3 % 4]
            P.set_local_timezone(P.timezone(other))
            try:
                _acc(M, "dt.accessors", _NAIVE_ACC, p, (("same-tzinfo", t1),), "DateTime-naive:after-set_local_timezone", value=p.isoformat(), mock=other)
            finally:
                P.set_local_timezone()
            old = _os.environ.get("TZ")
            _os.environ["TZ"] = other
            _time.tzset()
            try:
                _acc(M, "dt.accessors", _NAIVE_ACC, p, (("same-tzinfo", t1),), "DateTime-naive:after-TZ-change", value=p.isoformat(), tz=other)
            finally:
                if old is None:
                    _os.environ.pop("TZ", None)
                else:
                    _os.environ["TZ"] = old
                _time.tzset()
            M.count("naive_hidden_local_zone_steps")
        return
    if k == "date":
        F = us_to_fields(c["u"])[:3]
        F2 = us_to_fields(c["ub"])[:3]
        p, t = P.Date(*F), dt.date(*F)
        p2, t2 = P.Date(*F2), dt.date(*F2)
        M.cls("date", F[1], F[2] > 28)
        _acc(M, "date.accessors", DACC, p, (("native", t),), "Date", value=str(t))
        # the fromtimestamp() class methods with float timestamps, the last doubles before a local midnight included
        if 1971 <= F[0] <= 2037:
            import math

            mid = dt.datetime(*F).timestamp()
            for ts in (mid, math.nextafter(mid, -math.inf), math.nextafter(math.nextafter(mid, -math.inf), -math.inf), mid - 0.25, mid + 0.9999996,
                       float(int(mid) + 43200), mid - 1e-6):
                a_ = _call(lambda v: fields(P.Date.fromtimestamp(v)), ts)
                b_ = _call(lambda v: fields(dt.date.fromtimestamp(v)), ts)
                M.check("date.accessors", a_ == b_, "C11/Date:fromtimestamp(float):native", "Date.fromtimestamp differs from date.fromtimestamp", ts=repr(ts),
                        got=a_, native=b_)
                a2 = _call(lambda v: (fields(P.DateTime.fromtimestamp(v)), fields(P.DateTime.utcfromtimestamp(v))), ts)
                b2 = _call(lambda v: (fields(dt.datetime.fromtimestamp(v)), fields(dt.datetime.utcfromtimestamp(v))), ts)
                M.check("dt.accessors", a2 == b2, "C11/DateTime:fromtimestamp(float):native", "DateTime.(utc)fromtimestamp differs from the native class methods",
                        ts=repr(ts), got=a2, native=b2)
        for n, f in OPS:
            r_ = (f(p, p2), f(p, t2), f(t, p2))
            M.check("date.pairs", len(set(r_)) == 1 and r_[0] == f(t, t2), f"C11/Date:cmp-{n}", "Date comparison differs", a=str(t), b=str(t2), got=r_)
        M.check("date.pairs", p == t and hash(p) == hash(t) and td_us(p2 - p) == td_us(t2 - t) and td_us(p2 - t) == td_us(t2 - t),
                "C11/Date:eq-hash-sub", "Date eq/hash/subtraction differ", a=str(t), b=str(t2))
        return
    if k in ("time", "timetz"):
        F = us_to_fields(c["u"])[3:]
        F2 = us_to_fields(c["ub"])[3:]
        tz = None
        if k == "timetz":
            tz = P.tz.timezone.FixedTimezone(c["off"]) if c["off"] % 2 else P.UTC
        p, t = P.Time(*F, tzinfo=tz), dt.time(*F, tzinfo=tz)
        p2, t2 = P.Time(*F2, tzinfo=tz), dt.time(*F2, tzinfo=tz)
        M.cls(k, F[0], c["off"] % 60 == 0)
        _acc(M, "time.accessors", TACC, p, (("native", t),), "Time" + ("-aware" if tz else ""), value=str(t))
        for n, f in OPS:
            r_ = (f(p, p2), f(p, t2), f(t, p2))
            M.check("time.pairs", len(set(r_)) == 1 and r_[0] == f(t, t2), f"C11/Time:cmp-{n}", "Time comparison differs", a=str(t), b=str(t2), got=r_)
        M.check("time.pairs", p == t and hash(p) == hash(t), "C11/Time:eq-hash", "Time eq/hash differ", a=str(t))
        return
    # pairs of aware DateTimes
    if not (gen.ok_instant(c["ua"]) and gen.ok_instant(c["ub"])):
        return
    p1, a1, _ = _twins(M, c["za"], c["ua"])
    p2, a2, _ = _twins(M, c["zb"], c["ub"])
    same_obj = p1.tzinfo is p2.tzinfo
    u1, u2 = inst(p1), inst(p2)
    wall_vs_inst = same_obj and ((wall_us(p1) > wall_us(p2)) - (wall_us(p1) < wall_us(p2))) != ((u1 > u2) - (u1 < u2))
    M.cls("pair", c["za"], "same" if same_obj else "diff", c["ti"], c["pa"], c["pb"])
    ctx = {"a": f"{p1.isoformat()} fold={p1.fold}", "b": f"{p2.isoformat()} fold={p2.fold}", "same_tzinfo": same_obj}
    for n, f in OPS:
        r_ = (f(p1, p2), f(a1, a2), f(p1, a2), f(a1, p2))
        M.check("dt.pairs", len(set(r_)) == 1, f"C11/DateTime:cmp-{n}-vs-native", "comparison differs from the native twins", got=r_, **ctx)
    M.check("dt.pairs", (hash(p1) == hash(p2)) == (hash(a1) == hash(a2)), "C11/DateTime:hash-pair", "hash agreement differs", **ctx)
    for n, f in OPS[:4]:
        M.check("dt.order_instants", f(p1, p2) == f(u1, u2), "C11/DateTime:order-vs-instants" + (":same-tzinfo-fold" if wall_vs_inst else ""),
                "ordering of two aware DateTimes is not the ordering of their instants", op=n, got=f(p1, p2), **ctx)
    # native operands whose tzinfo is unusual but legitimate: a datetime.timezone NAMED "UTC" with a non-zero offset (what
    # strptime("... UTC+0300", "... %Z%z") returns), a sub-second offset, a plain ZoneInfo value on a wall time that does
    # not exist (or exists twice, either fold), a dateutil tzstr: pendulum - native and native - pendulum are the native
    # twin's answers (instant based: the two tzinfo objects differ)
    wv = us_to_fields(c["ub"] // US * US + c["ua"] % US)
    zi2 = zoneinfo.ZoneInfo(c["zb"])
    exotic = [("timezone-named-UTC", dt.datetime(*wv, tzinfo=dt.timezone(dt.timedelta(hours=(3, -7, 5)[c["ua"] % 3], minutes=(0, 30)[c["ua"] // 3 % 2]), "UTC"))),
              ("timezone-subsecond", dt.datetime(*wv, tzinfo=dt.timezone(dt.timedelta(seconds=3600 * (c["ua"] % 5 - 2), microseconds=(500000, 1, 999999)[c["ub"] % 3])))),
              ("zoneinfo-raw-wall", dt.datetime(*wv, tzinfo=zi2, fold=c["ua"] % 2))]
    if _TARGETS[-1][0] == "dateutil":
        exotic.append(("dateutil-tzstr", dt.datetime(*wv, tzinfo=_dtz.tzstr(("UTC+3", "EST5EDT", "UTC-4:30")[c["ua"] % 3]))))
    for tag, nat in exotic:
        try:
            exp_ = (td_us(a1 - nat), td_us(nat - a1))
        except OverflowError:
            continue
        got_ = _call(lambda v: (td_us(p1 - v), td_us(v - p1)), nat)
        okx = got_ == ("ok", exp_) if abs(exp_[0]) < 2**33 * US else (got_[0] == "ok" and abs(got_[1][0] - exp_[0]) <= 64 and abs(got_[1][1] - exp_[1]) <= 64)
        M.check("dt.sub", okx, f"C11/DateTime:subtraction:native-{tag}", "pendulum - native / native - pendulum differ from the native twin's subtraction",
                got=got_, native=exp_, operand=nat.isoformat(), operand_tz=repr(nat.tzinfo), **ctx)
    if not same_obj or p1.utcoffset() == p2.utcoffset():
        s, sn = p1 - p2, a1 - a2
        s2, s3 = p1 - a2, a1 - p2
        ok = td_us(s) == td_us(sn) == td_us(s2) == td_us(s3) if abs(td_us(sn)) < 2**33 * US else abs(td_us(s) - td_us(sn)) <= 64
        M.check("dt.sub", ok, "C11/DateTime:subtraction", "datetime subtraction differs from the native twins",
                got=[td_us(s), td_us(s2), td_us(s3)], native=td_us(sn), **ctx)
