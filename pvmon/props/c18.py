"""C18 — human-readable differences are total, localized and correctly directed.

Contract on DifferenceFormatter.format (every phrase produced anywhere): totality (no
exception, non-empty, no unsubstituted '{'), and equality with a reference phrase built
from the locale's OWN data (read from the locale module, not through Locale.get) for the
template the direction selects and the documented (unit, count) rounding; the phrase of
the opposite direction must not be produced.  Contracts on format_diff /
diff_for_humans / in_words / Locale.get (totality, call counts).  History independence:
every phrase is produced again after a shuffled history of other locales/keys; digests
must agree.  Locale-dependent format tokens are rendered for every locale.
"""
from __future__ import annotations

import datetime as dt
import importlib
import sys

from pvmon import gen

PLAN = {
    "quick": {"configs": ["ext1", "ext0"], "nshards": 9, "nshards_ext0": 3, "timeout": 900},
    "thorough": {"configs": ["ext1", "ext0"], "nshards": 14, "timeout": 3400, "suite": ["ext1"]},
}
DECIDING = ["direction.marker", "humans.boundary", "format.phrase", "history", "in_words", "tokens", "humans.direction", "bound", "argforms", "concurrent"]
FLOORS = {"quick": {"format.phrase": 300000, "history": 50000, "in_words": 5000, "tokens": 10000, "humans.direction": 5000, "bound": 20000, "humans.boundary": 20000, "direction.marker": 50000, "argforms": 100, "concurrent": 10000},
          "thorough": {"format.phrase": 1500000, "history": 200000, "in_words": 50000, "tokens": 10000, "humans.direction": 50000, "bound": 200000, "humans.boundary": 100000, "direction.marker": 200000, "argforms": 100}}
REQUIRED_HOOKS = ["DifferenceFormatter.format"]
EXHAUSTIVE = {"quick": False, "thorough": True}
TECHNIQUE = "runtime contract on DifferenceFormatter.format with a reference phrase built from the locale's own data (direction templates, documented rounding), totality monitors, history-independence digests; direction-marker monitor (documented English markers, majority markers of each locale); boundary expectation for diff_for_humans under pinned clocks with mixed reference kinds; the locale argument in its legitimate spellings (str subclass, (str, Enum) member, case, dash), the first use in a process rotating between them; shared objects used by six threads at once (1 us switch interval), every outcome compared with the single-threaded, contract-judged one"
LEVEL_TEXT = ("every phrase produced by DifferenceFormatter.format during the workloads is checked for totality and compared with the "
              "phrase the locale's own templates give for the selected direction and the documented rounding; the thorough tier enumerates "
              "27 locales x 7 units x counts 0..1000 x now/other x past/future x absolute; phrases are re-produced after shuffled call "
              "histories; held on what was observed")
RULE = ("27 locales x 7 units x counts (thorough 0..1000; quick 0..30, 100, 101, 102, 111, 1000 and every CLDR plural boundary) x "
        "{now, other} x {past, future} x {absolute}; Interval/DateTime pairs through diff_for_humans with a pinned clock; in_words for "
        "Durations and Intervals; locale tokens x 12 months x 7 weekdays x am/pm; distinct = (locale, unit, plural class, now/other, "
        "direction, absolute); every case is non-trivial")
ASSUMPTIONS = ["the rounding table is transcribed from the behaviour the upstream tests pin (years +1 if months > 6, 11 months and > 15 days -> "
               "1 year, months +1 if days >= 27, weeks +1 if remaining days > 3, days +1 if hours >= 22, seconds if 10 < s <= 59 else 'a few "
               "seconds', count 0 shown as 1)", "translations are read from the locale modules themselves; no translation is hard-coded",
               "'now' is pinned with time_machine.travel(tick=False)"]

UNITS = ("year", "month", "week", "day", "hour", "minute", "second")
KW = {"year": "years", "month": "months", "week": "weeks", "day": "days", "hour": "hours", "minute": "minutes", "second": "seconds"}
SECS = {"year": 365 * 86400, "month": 30 * 86400, "week": 7 * 86400, "day": 86400, "hour": 3600, "minute": 60, "second": 1}


def locales():
    import os

    import pendulum

    base = os.path.join(os.path.dirname(pendulum.__file__), "locales")
    return sorted(d for d in os.listdir(base) if os.path.isfile(os.path.join(base, d, "locale.py")))


def data(loc):
    return importlib.import_module(f"pendulum.locales.{loc}.locale").locale


def dig(d, key):
    cur = d
    for part in key.split("."):
        try:
            cur = cur[part]
        except (KeyError, TypeError, IndexError):
            return None
    return cur


def table(diff):
    """documented rounding -> (unit, count) or ('few', remaining_seconds)"""
    days = diff.weeks * 7 + diff.remaining_days
    if diff.years > 0:
        return "year", diff.years + (1 if diff.months > 6 else 0)
    if diff.months == 11 and days > 15:
        return "year", 1
    if diff.months > 0:
        return "month", diff.months + (1 if days >= 27 else 0)
    if diff.weeks > 0:
        return "week", diff.weeks + (1 if diff.remaining_days > 3 else 0)
    if diff.remaining_days > 0:
        return "day", diff.remaining_days + (1 if diff.hours >= 22 else 0)
    if diff.hours > 0:
        return "hour", diff.hours
    if diff.minutes > 0:
        return "minute", diff.minutes
    if 10 < diff.remaining_seconds <= 59:
        return "second", diff.remaining_seconds
    return "few", diff.remaining_seconds


def reference(D, plural, unit, count, is_now, future, absolute):
    """phrase from the locale's own data; None when the locale lacks a needed entry"""
    if unit == "few":
        few = dig(D, "custom.units.few_second")
        if few is not None:
            if absolute:
                return few
            tmpl = dig(D, "custom." + (("from_now" if future else "ago") if is_now else ("after" if future else "before")))
            return None if tmpl is None else _fmt(tmpl, few)
        unit = "second"
    if count == 0:
        count = 1
    p = plural(count)
    if absolute:
        tmpl = dig(D, f"translations.units.{unit}.{p}")
        return None if tmpl is None else _fmt(tmpl, count)
    if is_now:
        tmpl = dig(D, f"translations.relative.{unit}.{'future' if future else 'past'}.{p}")
        return None if tmpl is None else _fmt(tmpl, count)
    special = dig(D, f"custom.units_relative.{unit}.{'future' if future else 'past'}")
    if special:
        tmpl = special.get(p) if isinstance(special, dict) else None
    else:
        tmpl = dig(D, f"translations.units.{unit}.{p}")
    outer = dig(D, "custom." + ("after" if future else "before"))
    if tmpl is None or outer is None:
        return None
    return _fmt(outer, _fmt(tmpl, count))


def _toks(s):
    import re

    return set(re.findall(r"[^\W\d_]+", s.replace("{0}", " ").replace("{}", " ").lower(), re.U))


def _markers(D):
    """(past marker words, future marker words): words shared by the past (future) templates of all but at most one unit
    and used by at most one unit's templates of the other direction; None when the locale has no such words"""
    import collections

    rel = dig(D, "translations.relative") or {}
    units = [u for u in ("year", "month", "week", "day", "hour", "minute", "second") if isinstance(rel.get(u), dict)
             and isinstance(rel[u].get("past"), dict) and isinstance(rel[u].get("future"), dict)]
    if len(units) < 4:
        return None
    past = {u: set().union(*[_toks(t) for t in rel[u]["past"].values() if isinstance(t, str)]) for u in units}
    fut = {u: set().union(*[_toks(t) for t in rel[u]["future"].values() if isinstance(t, str)]) for u in units}
    cp = collections.Counter(t for u in units for t in past[u])
    cf = collections.Counter(t for u in units for t in fut[u])
    mp = {t for t, c in cp.items() if c >= len(units) - 1 and cf[t] <= 1}
    mf = {t for t, c in cf.items() if c >= len(units) - 1 and cp[t] <= 1}
    return (mp, mf) if mp and mf else None


def _fmt(tmpl, x):
    try:
        return tmpl.format(x)
    except (KeyError, IndexError):
        return None


def setup(M):
    import pendulum

    M.pendulum = pendulum
    P = pendulum
    DF = sys.modules["pendulum.formatting.difference_formatter"].DifferenceFormatter
    LOC = sys.modules["pendulum.locales.locale"].Locale
    M.locs = locales()
    M.data = {loc: data(loc) for loc in M.locs}
    M.markers = {}
    for loc, D in M.data.items():
        mk = _markers(D)
        if mk is not None:
            M.markers[loc] = mk

    def loc_name(x):
        if x is None:
            return P.get_locale()
        return x._locale if isinstance(x, LOC) else LOC.normalize_locale(x)

    def judge(ret, exc_, a, k):
        diff = a[1] if len(a) > 1 else k.get("diff")
        is_now = a[2] if len(a) > 2 else k.get("is_now", True)
        absolute = a[3] if len(a) > 3 else k.get("absolute", False)
        locale = a[4] if len(a) > 4 else k.get("locale")
        ln = loc_name(locale if locale is not None else a[0]._locale)
        D = M.data.get(ln) or M.data.get(ln.split("_")[0])
        if D is None:
            return
        try:
            unit, count = table(diff)
            future = bool(diff.invert)
        except Exception:  # noqa: BLE001
            return
        ctx = dict(locale=ln, unit=unit, count=count, is_now=bool(is_now), future=future, absolute=bool(absolute))
        key = f"{ln}:{'abs' if absolute else ('now' if is_now else 'other')}"
        if exc_ is not None:
            M.check("format.phrase", False, f"C18/raised-{type(exc_).__name__}:{key}", "formatting a difference raised", exc=repr(exc_)[:160], **ctx)
            return
        bad = []
        if not isinstance(ret, str) or not ret.strip():
            bad.append("empty")
        elif "{" in ret:
            bad.append("unsubstituted-placeholder")
        exp = reference(D, D["plural"], unit, count, is_now, future, absolute)
        opp = reference(D, D["plural"], unit, count, is_now, not future, absolute) if not absolute else None
        if not bad:
            if exp is None:
                bad.append("locale-entry-missing-but-phrase-produced")
            elif ret != exp:
                bad.append("wrong-direction" if (opp is not None and ret == opp and opp != exp) else "phrase")
        M.check("format.phrase", not bad, f"C18/{'+'.join(bad)}:{key}", "phrase is not the locale's template for this direction and count", got=ret,
                expected=exp, opposite=opp, **ctx)
        # direction marker, judged independently of the entry the formatter looked up: English against the documented
        # words (ago / in ..., before / after); every other locale against the marker words that the majority of its
        # own units share (a single unit whose past and future templates are swapped stands out) - only the
        # *opposite* marker without the own one is a violation, a reworded template is not
        if not absolute and isinstance(ret, str) and not bad:
            tk = _toks(ret)
            if ln.split("_")[0] == "en":
                low = ret.lower()
                okd = ((low.endswith(" ago") if not future else low.startswith("in ")) if is_now
                       else (low.endswith(" before") if not future else low.endswith(" after")))
                M.check("direction.marker", okd, f"C18/direction-marker:{key}", "the English phrase does not carry the documented marker of its direction",
                        got=ret, **ctx)
            elif is_now and ln in M.markers:
                mp, mf = M.markers[ln]
                own, other = (mf, mp) if future else (mp, mf)
                M.check("direction.marker", not ((tk & other) and not (tk & own)), f"C18/direction-marker:{key}",
                        "the phrase carries the marker words of the opposite direction (as used by the locale's other units) and none of its own",
                        got=ret, own=sorted(own), opposite=sorted(other), **ctx)
        # within one unit of the true elapsed time
        if unit != "few" and isinstance(diff, P.Interval):
            try:
                true_s = abs(diff.total_seconds())
                shown = (count or 1) * SECS[unit]
                # one unit, with the calendar slack of leap days (year) and 28..31-day months
                slack = {"year": 366 * 86400 + 86400 * (count // 4 + 1), "month": 31 * 86400 + 86400 * count}.get(unit, SECS[unit])
                M.check("bound", abs(shown - true_s) <= slack,
                        f"C18/not-within-one-unit:{unit}", "the count shown is further than one unit from the elapsed time", true_seconds=true_s,
                        shown_seconds=shown, **ctx)
            except Exception:  # noqa: BLE001
                pass

    M.contract(DF, "format", post=lambda ret, a, k, s: judge(ret, None, a, k), exc=lambda e, a, k, s: judge(None, e, a, k),
               label="DifferenceFormatter.format")

    def total(name):
        def post(ret, a, k, snap):
            M.check("in_words" if "in_words" in name else "humans.direction", isinstance(ret, str) and ret.strip() != "" and "{" not in ret,
                    f"C18/{name}:empty-or-placeholder", f"{name} returned an empty string or an unsubstituted placeholder", got=ret)

        def exc(e, a, k, snap):
            M.check("in_words" if "in_words" in name else "humans.direction", False, f"C18/{name}:raised-{type(e).__name__}", f"{name} raised",
                    exc=repr(e)[:160], args=repr(a[1:])[:120], kwargs=repr(k)[:120])
        return post, exc

    for owner, name, label in ((P.Duration, "in_words", "Duration.in_words"), (P.Interval, "in_words", "Interval.in_words"),
                               (P.DateTime, "diff_for_humans", "DateTime.diff_for_humans"), (P.Date, "diff_for_humans", "Date.diff_for_humans"),
                               (P.Time, "diff_for_humans", "Time.diff_for_humans")):
        p, e = total(label)
        M.contract(owner, name, post=p, exc=e, label=label)
    M.contract(LOC, "get", post=lambda r, a, k, s: M.count("Locale.get.calls"), label="Locale.get")


def _expect_humans(M, cls, got, length, loc, is_now, future, absolute):
    """got must be the locale's phrase for (unit, count) of `length` in the direction the workload knows"""
    D = M.data.get(loc)
    if D is None:
        return
    try:
        unit, count = table(length)
    except Exception:  # noqa: BLE001
        return
    exp = reference(D, D["plural"], unit, count, is_now, future, absolute)
    if exp is None:
        return
    opp = reference(D, D["plural"], unit, count, is_now, not future, absolute) if not absolute else None
    what = "ok" if got == exp else ("wrong-direction" if got == opp and opp != exp else "phrase")
    M.check("humans.boundary", got == exp, f"C18/humans-boundary:{cls}:{what}:{'now' if is_now else 'other'}" + (":abs" if absolute else ""),
            "diff_for_humans does not give the phrase for the elapsed time and direction between the instance and its reference",
            got=got, expected=exp, unit=unit, count=count, future=future, locale=loc)


def counts(thorough, plural):
    if thorough:
        return list(range(0, 1001))
    base = set(range(0, 131)) | {200, 201, 202, 211, 500, 999, 1000}
    # every plural-class boundary up to 200
    prev = None
    for n in range(0, 201):
        c = plural(n)
        if c != prev:
            base.add(n)
            base.add(max(0, n - 1))
        prev = c
    return sorted(base)


def cases(M):
    r = gen.rng(M)
    thorough = M.tier == "thorough"
    locs = M.locs
    if M.config == "ext0" and not thorough:
        locs = [l for i, l in enumerate(locs) if i % 3 == M.shard % 3][:6]
    else:
        locs = locs[M.shard::M.nshards]
    if M.shard % 2 == 0:
        yield {"k": "threads", "n": 4000 if thorough else 1200, "seed": r.randrange(1 << 30)}
    for li, loc in enumerate(locs):
        yield {"k": "argforms", "loc": loc, "first": li + M.shard + M.seed}       # the first use of this locale in this process
        yield {"k": "grid", "loc": loc}
        yield {"k": "tokens", "loc": loc}
        yield {"k": "humans", "loc": loc, "seed": r.randrange(1 << 30), "n": 6000 if thorough else 1500}
        yield {"k": "humans_time", "loc": loc, "seed": r.randrange(1 << 30), "n": 3000 if thorough else 600}
        yield {"k": "words", "loc": loc, "seed": r.randrange(1 << 30), "n": 6000 if thorough else 1000}
    yield {"k": "history", "seed": r.randrange(1 << 30), "n": 100000 if thorough else 20000}


def _phrase(M, loc, unit, count, is_now, future, absolute):
    P = M.pendulum
    AD = sys.modules["pendulum.duration"].AbsoluteDuration
    d = AD(**{KW[unit]: -count if future else count})
    if future and count == 0:
        return None
    try:
        return P.format_diff(d, is_now, absolute, loc)            # contract judges
    except Exception as e:  # noqa: BLE001
        return f"<raised {type(e).__name__}>"


def run(M, c):
    import random

    P = M.pendulum
    k = c["k"]
    if k == "threads":
        # the process-wide DifferenceFormatter / Locale tables used by six threads at once with different locales and pairs
        from pvmon import conc

        r_ = random.Random(c["seed"])
        base = P.DateTime(2021, 6, 15, 12, 0, 0, tzinfo=P.UTC)
        items = []
        for i in range(c["n"]):
            loc = r_.choice(M.locs)
            secs = r_.choice((1, 45, 60, 3599, 3600, 86399, 86400, 7 * 86400, 26 * 86400, 40 * 86400, 400 * 86400)) * r_.choice((1, 2, 5, 11)) * r_.choice((1, -1))
            items.append((base, base.add(seconds=secs), loc, i % 3 == 0))

        def one(it):
            a, b, loc, ab = it
            return (a.diff_for_humans(b, absolute=ab, locale=loc), (b - a).in_words(locale=loc), a.format("dddd D MMMM, Do A", locale=loc))

        conc.differential(M, items, one, "C18/concurrent", show=lambda it: f"{it[1].isoformat()} {it[2]} abs={it[3]}")
        M.cls("threads")
        return
    if k == "grid":
        loc = c["loc"]
        pl = M.data[loc]["plural"]
        n = 0
        for unit in UNITS:
            for count in counts(M.tier == "thorough", pl):
                for is_now in (True, False):
                    for future in (False, True):
                        for absolute in (False, True):
                            M.current = {"k": "one", "loc": loc, "unit": unit, "count": count, "now": is_now, "future": future, "abs": absolute}
                            _phrase(M, loc, unit, count, is_now, future, absolute)
                            M.cls(loc, unit, pl(count or 1), is_now, future, absolute)
                            n += 1
        M.sample({"k": "grid", "loc": loc, "phrases": n})
        return
    if k == "one":
        _phrase(M, c["loc"], c["unit"], c["count"], c["now"], c["future"], c["abs"])
        return
    if k == "argforms":
        # the locale argument in its legitimate spellings - plain str, a str subclass, a member of a (str, Enum) class,
        # upper case, '-' for '_' - and whichever of them comes FIRST in the process (this case is the first use of the
        # locale in this shard; the form used first rotates): every entry point must render, and render what the plain
        # name renders
        import enum

        loc = c["loc"]

        class _S(str):
            pass

        Lang = enum.Enum("Lang", {"X": loc}, type=str)
        forms = [("enum", Lang.X), ("strsub", _S(loc)), ("plain", loc), ("upper", loc.upper()), ("dash", loc.replace("_", "-"))]
        forms = forms[c["first"] % 3:3] + forms[:c["first"] % 3] + forms[3:]
        a, b = P.DateTime(2020, 1, 1, 10, tzinfo=P.UTC), P.DateTime(2020, 1, 3, 15, 30, tzinfo=P.UTC)
        dur = P.duration(days=2, hours=5)

        def render(arg):
            return (a.diff_for_humans(b, locale=arg), b.diff_for_humans(a, locale=arg), a.diff_for_humans(b, True, arg), P.format_diff(dur, True, False, arg),
                    dur.in_words(locale=arg), (b - a).in_words(arg), a.format("dddd D MMMM YYYY, Do MMM ddd dd A LT", locale=arg),
                    P.Date(2020, 1, 1).diff_for_humans(P.Date(2020, 3, 1), locale=arg), P.Time(10, 0).diff_for_humans(P.Time(12, 30), locale=arg))

        out = {}
        for name, arg in forms:
            try:
                out[name] = render(arg)
            except Exception as e:  # noqa: BLE001
                out[name] = "<raised %s: %s>" % (type(e).__name__, str(e)[:80])
        for pos_, (name, arg) in enumerate(forms):
            M.current = {"k": "argforms", "loc": loc, "first": c["first"]}
            ok = not isinstance(out[name], str) and out[name] == out["plain"] and all(isinstance(x_, str) and x_ for x_ in out[name])
            M.check("argforms", ok, f"C18/locale-argument-form:{name}" + (":first-use" if pos_ == 0 else "") + (":raised" if isinstance(out[name], str) else ""),
                    "a legitimate spelling of the locale argument does not render like the plain locale name", locale=loc, form=name, position=pos_,
                    got=out[name], plain=out["plain"])
        M.cls("argforms", loc, forms[0][0])
        return
    if k == "history":
        # the same phrase after different call histories (Locale._cache / _key_cache / set_locale) must not change
        r = random.Random(c["seed"])
        first = {}
        for i in range(c["n"]):
            M.progress()
            loc = r.choice(M.locs)
            key = (loc, r.choice(UNITS), r.choice((0, 1, 2, 3, 5, 11, 21, 101)), r.random() < 0.5, r.random() < 0.5, r.random() < 0.3)
            if i % 9 == 0:
                P.set_locale(r.choice(M.locs))
            if i % 17 == 0:
                # a rejected configuration call must leave the configuration as it was: everything rendered with the
                # default locale still works and still speaks the locale that was in force
                before = P.get_locale()
                x_ = P.DateTime(2021, 6, 15, 12, tzinfo=P.UTC)
                want = (x_.diff_for_humans(x_.add(days=3), locale=before), P.duration(hours=5, minutes=3).in_words(locale=before),
                        x_.format("dddd D MMMM", locale=before))
                try:
                    P.set_locale(r.choice(("xx", "not_a_locale", "zz_zz")))
                    rejected = False
                except Exception:  # noqa: BLE001 - however the call is rejected
                    rejected = True
                M.current = {"k": "rejected-set_locale", "before": before}
                try:
                    got = (x_.diff_for_humans(x_.add(days=3)), P.duration(hours=5, minutes=3).in_words(), x_.format("dddd D MMMM"))
                except Exception as e:  # noqa: BLE001
                    got = ("raised", type(e).__name__, repr(e)[:80])
                if rejected:
                    M.check("history", got == want, "C18/after-rejected-set_locale:" + ("raised" if got and got[0] == "raised" else "changed"),
                            "after a set_locale() call that was rejected, default-locale rendering raises or no longer uses the locale in force",
                            before=before, got=got, expected=want)
                try:
                    P.set_locale(before)
                except ValueError:
                    P.set_locale("en")
            if i % 13 == 0:
                # interleave other keys with defaults (Locale.get memoises the default it is first called with)
                L = P.locale(loc)
                L.get("custom.units.few_second", r.choice((None, "x")))
                L.get("translations.nonexistent.key", r.choice((None, "y")))
            M.current = {"k": "one", "loc": key[0], "unit": key[1], "count": key[2], "now": key[3], "future": key[4], "abs": key[5]}
            ph = _phrase(M, *key)
            if key in first:
                M.check("history", first[key] == ph, f"C18/history-dependent:{loc}", "the same difference is phrased differently after another call history",
                        key=list(map(str, key)), first=first[key], now=ph)
            else:
                first[key] = ph
                M.digest("|".join(map(str, key)), ph)
        P.set_locale("en")
        return
    if k == "tokens":
        loc = c["loc"]
        toks = ["MMMM", "MMM", "dddd", "ddd", "dd", "Do", "Mo", "Qo", "DDDo", "do", "wo", "A", "a", "LT", "LTS", "L", "LL", "LLL", "LLLL", "e", "eo"]
        fm = sys.modules["pendulum.formatting.formatter"].Formatter
        known = set(fm._LOCALIZABLE_TOKENS) | {"LT", "LTS", "L", "LL", "LLL", "LLLL"}
        for mo in range(1, 13):
            for day in range(1, 8):
                for hour in (3, 15):
                    x = P.DateTime(2021, mo, day, hour, 4, 5, tzinfo=P.UTC)
                    for tok in toks:
                        if tok not in known:
                            continue
                        M.current = {"k": "tok", "loc": loc, "mo": mo, "d": day, "h": hour, "tok": tok}
                        try:
                            s = x.format(tok, locale=loc)
                            ok = isinstance(s, str) and s.strip() != ""
                            sig = f"C18/token-empty:{tok}:{loc}"
                        except Exception as e:  # noqa: BLE001
                            s, ok, sig = repr(e)[:120], False, f"C18/token-raised-{type(e).__name__}:{tok}:{loc}"
                        M.check("tokens", ok, sig, "a locale-dependent format token did not render", got=s)
            M.cls("tok", loc, mo)
        return
    if k == "tok":
        x = P.DateTime(2021, c["mo"], c["d"], c["h"], 4, 5, tzinfo=P.UTC)
        try:
            s = x.format(c["tok"], locale=c["loc"])
            M.check("tokens", isinstance(s, str) and s.strip() != "", f"C18/token-empty:{c['tok']}:{c['loc']}", "token empty", got=s)
        except Exception as e:  # noqa: BLE001
            M.check("tokens", False, f"C18/token-raised-{type(e).__name__}:{c['tok']}:{c['loc']}", "token raised", got=repr(e)[:120])
        return
    if k == "humans":
        import time_machine

        loc = c["loc"]
        r = random.Random(c["seed"])
        now = dt.datetime(2021, 6, 15, 12, 0, 0, tzinfo=dt.timezone.utc)
        with time_machine.travel(now, tick=False):
            base = P.DateTime(2021, 6, 15, 12, 0, 0, tzinfo=P.UTC)
            for i in range(c["n"]):
                M.progress()
                secs = r.choice((r.randrange(0, 120), r.randrange(0, 86400 * 3), r.randrange(0, 86400 * 800), r.randrange(0, 86400 * 365 * 30)))
                sign = r.choice((1, -1))
                x = base.add(seconds=sign * secs)
                other = None if i % 2 else base
                absolute = i % 5 == 0
                M.current = {"k": "human", "loc": loc, "secs": sign * secs, "other": other is not None, "abs": absolute}
                try:
                    s = x.diff_for_humans(other, absolute=absolute, locale=loc)     # contracts judge phrase + direction templates
                except Exception:  # noqa: BLE001
                    continue
                M.cls("human", loc, sign, other is None, absolute, min(len(str(secs)), 7))
                # boundary expectation, independent of the difference object the method hands to the formatter: direction
                # from the workload's own sign, unit/count from the decomposition of the two endpoints
                if secs:
                    lo_, hi_ = (base, x) if sign > 0 else (x, base)
                    _expect_humans(M, "DateTime", s, P.Interval(lo_, hi_), loc, other is None, sign > 0, absolute)
                if i % 11 == 0:
                    # two instants less than a second apart (same tzinfo object): the direction is still that of the instants
                    us_ = r.choice((1, 300000, 700000, 999999))
                    for zn_ in ("UTC", "Europe/Paris"):
                        b2 = P.DateTime(2021, 6, 15, 12, 0, 0, 100, tzinfo=P.timezone(zn_))
                        x2 = b2.add(microseconds=sign * us_)
                        M.current = {"k": "human-subsecond", "loc": loc, "us": sign * us_, "zone": zn_, "abs": absolute}
                        try:
                            s5 = x2.diff_for_humans(b2, absolute=absolute, locale=loc)
                        except Exception:  # noqa: BLE001
                            continue
                        lo5, hi5 = (b2, x2) if sign > 0 else (x2, b2)
                        _expect_humans(M, "DateTime-subsecond", s5, P.Interval(lo5, hi5), loc, False, sign > 0, absolute)
                if i % 9 == 0 and secs:
                    # other operand kinds for the reference: pendulum DateTime / native date / native datetime given to a
                    # Date, native aware datetime given to a DateTime, native time given to a Time
                    nd = sign * (secs // 86400 + 1)
                    d0 = P.Date(2021, 6, 15)
                    d1 = d0.add(days=nd)
                    lo_, hi_ = (d0, d1) if nd > 0 else (d1, d0)
                    for oname, oth in (("pendulum-datetime", P.DateTime(2021, 6, 15, 9, 30, tzinfo=P.UTC)), ("native-date", dt.date(2021, 6, 15)),
                                       ("native-datetime", dt.datetime(2021, 6, 15, 9, 30)), ("pendulum-naive-datetime", P.DateTime(2021, 6, 15, 23, 59))):
                        M.current = {"k": "human-mixed", "loc": loc, "days": nd, "other": oname, "abs": absolute}
                        try:
                            s2 = d1.diff_for_humans(oth, absolute=absolute, locale=loc)     # totality contract records a raise
                        except Exception:  # noqa: BLE001
                            continue
                        _expect_humans(M, "Date-vs-" + oname, s2, P.Interval(lo_, hi_), loc, False, nd > 0, absolute)
                    nat = dt.datetime(2021, 6, 15, 12, 0, 0, tzinfo=dt.timezone.utc)
                    M.current = {"k": "human-mixed", "loc": loc, "secs": sign * secs, "other": "native-aware-datetime", "abs": absolute}
                    try:
                        s3 = x.diff_for_humans(nat, absolute=absolute, locale=loc)
                        lo2, hi2 = (base, x) if sign > 0 else (x, base)
                        _expect_humans(M, "DateTime-vs-native", s3, P.Interval(lo2, hi2), loc, False, sign > 0, absolute)
                    except Exception:  # noqa: BLE001
                        pass
                    tsec = (43200 + sign * (secs % 40000 + 1)) % 86400
                    M.current = {"k": "human-mixed", "loc": loc, "tsec": tsec, "other": "native-time", "abs": absolute}
                    try:
                        s4 = P.Time(tsec // 3600, tsec // 60 % 60, tsec % 60).diff_for_humans(dt.time(12, 0, 0), absolute=absolute, locale=loc)
                        _expect_humans(M, "Time-vs-native", s4, P.duration(seconds=abs(tsec - 43200)), loc, False, tsec > 43200, absolute)
                    except Exception:  # noqa: BLE001
                        pass
                if i % 7 == 0:
                    d = P.Date(2021, 6, 15).add(days=sign * (secs // 86400 + 1))
                    try:
                        d.diff_for_humans(P.Date(2021, 6, 15), locale=loc)
                        P.Time(12, 0, 0).diff_for_humans(P.Time((12 + sign * (secs % 11)) % 24, 30, 0), locale=loc)
                    except Exception:  # noqa: BLE001
                        pass
        return
    if k == "humans_time":
        import time_machine

        loc = c["loc"]
        r = random.Random(c["seed"])
        for hh, mm, ss in ((21, 37, 11), (2, 10, 0), (12, 0, 0)):
            now = dt.datetime(2021, 6, 15, hh, mm, ss, tzinfo=dt.timezone.utc)
            nsec = hh * 3600 + mm * 60 + ss
            with time_machine.travel(now, tick=False):
                for i in range(c["n"] // 3):
                    M.progress()
                    tsec = r.choice((r.randrange(86400), (nsec + r.choice((-1, 1)) * r.randrange(1, 130)) % 86400, r.choice((0, 86399, 43200))))
                    if tsec == nsec:
                        continue
                    t = P.Time(tsec // 3600, tsec // 60 % 60, tsec % 60)
                    explicit = i % 3 == 0
                    absolute = i % 5 == 0
                    M.current = {"k": "human_time", "loc": loc, "time": str(t), "now": str(now.time()), "explicit": explicit, "abs": absolute}
                    try:
                        s = t.diff_for_humans(P.Time(hh, mm, ss) if explicit else None, absolute=absolute, locale=loc)
                    except Exception:  # noqa: BLE001
                        continue          # the totality contract has recorded it
                    M.cls("human_time", loc, tsec > nsec, explicit, absolute, abs(tsec - nsec) > 43200)
                    _expect_humans(M, "Time", s, P.duration(seconds=abs(tsec - nsec)), loc, not explicit, tsec > nsec, absolute)
        return
    if k == "words":
        loc = c["loc"]
        r = random.Random(c["seed"])
        for i in range(c["n"]):
            M.progress()
            kw = {n: r.choice((0, 0, r.randrange(0, 40))) for n in ("years", "months", "weeks", "days", "hours", "minutes", "seconds", "microseconds")}
            if i % 10 == 0:
                kw = {n: 0 for n in kw}
                kw["microseconds"] = r.choice((0, 1, 500000))
            sign = r.choice((1, -1))
            d = P.duration(**{n: sign * v for n, v in kw.items()})
            M.current = {"k": "words", "loc": loc, "kw": kw, "sign": sign}
            try:
                s = d.in_words(locale=loc)           # contract judges totality
                a = P.DateTime(2000, 1, 31, tzinfo=P.UTC)
                (a.add(**{n: v for n, v in kw.items()}) - a).in_words(locale=loc)
                (a - a.add(**{n: v for n, v in kw.items()})).in_words(locale=loc, separator=", ")
            except Exception:  # noqa: BLE001
                pass
            M.cls("words", loc, tuple(bool(v) for v in kw.values()), sign)
        return
