"""C01 — timezone conversion preserves the instant and matches the tz database.

Contracts: Timezone.convert / FixedTimezone.convert (aware branch), DateTime.in_timezone,
in_tz, astimezone, DateTime.instance, pendulum.instance, pendulum.from_timestamp,
DateTime.fromtimestamp / utcfromtimestamp, int_timestamp (property) and timestamp().
Boundary checkers: path independence A->B->C == A->C, timestamp inverse.
The instant of every input is computed from the input object's own fields and its own
utcoffset() (never from how the harness produced it).
"""
from __future__ import annotations

import datetime as dt
import zoneinfo

from pvmon import gen
from pvmon.common import DAY_US, MAX_US, MIN_US, US, fields, inst, off_us, us_to_fields, wall_us
from pvmon.oracle import judge, tzdb

PLAN = {
    "quick": {"configs": ["ext1", "ext0"], "nshards": 12, "nshards_ext0": 4, "timeout": 900},
    "thorough": {"configs": ["ext1", "ext0"], "nshards": 16, "timeout": 3400, "suite": ["ext1"]},
}
DECIDING = ["convert", "in_timezone", "astimezone", "instance", "from_timestamp", "fromtimestamp", "int_timestamp",
            "timestamp", "path", "ts_inverse"]
FLOORS = {"quick": {"convert": 50000, "in_timezone": 50000, "astimezone": 20000, "instance": 20000,
                    "from_timestamp": 5000, "int_timestamp": 5000, "timestamp": 5000, "path": 5000, "ts_inverse": 5000},
          "thorough": {"convert": 500000, "in_timezone": 500000, "astimezone": 200000, "instance": 200000,
                       "from_timestamp": 50000, "int_timestamp": 50000, "timestamp": 50000, "path": 50000,
                       "ts_inverse": 50000}}
REQUIRED_HOOKS = ["Timezone.convert", "FixedTimezone.convert", "DateTime.in_timezone", "DateTime.astimezone",
                  "DateTime.instance", "pendulum.from_timestamp", "DateTime.int_timestamp"]
TECHNIQUE = "runtime contracts on every conversion entry point with an instant-preservation + tz-database rendering oracle; log checkers for path independence and timestamp inverse; workloads request fixed offsets also as int/float hours"
LEVEL_TEXT = ("every observed aware conversion (convert, in_timezone, astimezone, instance, from_timestamp, fromtimestamp) is "
              "judged against the input's own instant and an independently parsed tz database; enumerates every transition "
              "of every zone as target with sources of five tzinfo kinds, both backends; held on what was observed")
RULE = ("targets: every zone x every transition x 7 probes (T-gap,-1s,-1us,0,+1us,+1s,+gap) + random instants years 2..9998; "
        "sources: pendulum IANA (hostile + seeded zones), pendulum fixed (+-23:59, second-granular), zoneinfo (both folds), "
        "pytz, dateutil, datetime.timezone; distinct = (source kind, source zone, target zone, transition index, probe, op); "
        "non-trivial = source zone != target zone or probe adjacent to a transition")
ASSUMPTIONS = ["trusted base: CPython datetime/zoneinfo C implementation and the tz files zoneinfo resolves; explicit "
               "transitions parsed independently, footer rules via plain ZoneInfo",
               "foreign tzinfo objects are judged by what they say (own fields - own utcoffset())",
               "tz rules after 2045 sampled at four years only; float timestamps only exact multiples of 2^-6 s"]

SRC_KINDS = ("pend", "pendfix", "zi", "pytz", "pytzfix", "dateutil", "dtz")


def _target_ok(ret, want):
    """want: ('iana', key) | ('fixed', off_s) | None"""
    k = judge.zkind(ret)
    return want is None or k == want


def _judge(M, name, src_desc, u, ret, want, sigp, type_cls=None):
    bad = []
    if type_cls is not None and type(ret) is not type_cls:
        bad.append("type")
    elif not _target_ok(ret, want):
        bad.append("zone")
    else:
        bad = judge.render_problems(ret, u)
    M.check(name, not bad, f"C01/{sigp}:{'+'.join(bad)}", f"{name}: conversion changed the value", src=src_desc,
            instant_us=u, got=judge.desc(ret), want_zone=want)
    return not bad


def _want_of_tz(tz):
    """the zone a pendulum timezone object denotes"""
    from pendulum.tz.timezone import FixedTimezone, Timezone

    if isinstance(tz, Timezone):
        return ("iana", tz.key)
    if isinstance(tz, FixedTimezone):
        return ("fixed", tz.offset)
    return None


def _want_of_arg(P, tz):
    if isinstance(tz, str):
        return ("iana", tz) if tz in M_ZONES else None
    if isinstance(tz, bool):
        return None
    if isinstance(tz, int):
        return ("fixed", tz * 3600)
    if isinstance(tz, float):
        # a number of hours; only quarter hours are exact in binary floating point (4.35 * 3600 is not 15660)
        return ("fixed", int(tz * 3600)) if tz * 4 == int(tz * 4) and abs(tz) < 24 else None
    return _want_of_tz(tz)


M_ZONES = set()


def _foreign_want(src):
    """zone instance() must report for an aware foreign value"""
    tz = src.tzinfo
    key = getattr(tz, "key", None)
    if isinstance(key, str) and key in M_ZONES:
        return ("iana", key), "zoneinfo"
    if hasattr(tz, "localize"):
        zone = getattr(tz, "zone", None)
        if isinstance(zone, str) and zone in M_ZONES:
            return ("iana", zone), "pytz"
        if zone is None:
            return ("fixed", off_us(src) // US), "pytz-fixed"
        return None, "pytz-unknown"
    if isinstance(tz, dt.timezone):
        if off_us(src) == 0 and tz.tzname(None) == "UTC":
            return ("iana", "UTC"), "dtz-utc"
        return ("fixed", off_us(src) // US), "dtz"
    try:
        if tz.tzname(None) == "UTC":
            return ("iana", "UTC"), "other-utc"
    except Exception:
        pass
    return ("fixed", off_us(src) // US), "other"


def setup(M):
    import pendulum
    from pendulum.datetime import DateTime
    from pendulum.tz.timezone import FixedTimezone, Timezone

    M.pendulum = pendulum
    M_ZONES.update(tzdb.zone_names())

    # -- Timezone.convert / FixedTimezone.convert, aware branch
    def conv_post(ret, a, k, snap):
        tz, d = a[0], a[1]
        if d.tzinfo is None or d.utcoffset() is None:
            return
        u = inst(d)
        if not MIN_US + DAY_US < u < MAX_US - DAY_US:
            return
        _judge(M, "convert", judge.desc(d), u, ret, _want_of_tz(tz), "convert")

    M.contract(Timezone, "convert", post=conv_post, label="Timezone.convert")
    M.contract(FixedTimezone, "convert", post=conv_post, label="FixedTimezone.convert")

    # -- in_timezone / in_tz / astimezone
    def intz_post(name):
        def post(ret, a, k, snap):
            x = a[0]
            tz = a[1] if len(a) > 1 else k.get("tz")
            # (a source that carries a non-pendulum tzinfo - what astimezone(<stdlib tzinfo>), fromisoformat() or the plain
            #  constructor leave on a DateTime - is judged like any other: its instant is its own fields - its own utcoffset())
            if x.tzinfo is None or x.utcoffset() is None or (judge.zkind(x)[0] != "foreign" and not judge.valid_local(x)):
                M.count(name + ".skipped")
                return
            if judge.zkind(x)[0] == "foreign":
                M.count(name + ".foreign_tzinfo_sources")
            want = _want_of_arg(pendulum, tz)
            if want is None and not isinstance(tz, (Timezone, FixedTimezone)):
                if name == "astimezone" and isinstance(tz, dt.tzinfo):
                    # astimezone(foreign tzinfo): instant only
                    M.check(name, inst(ret) == inst(x) and isinstance(ret, DateTime), "C01/astimezone-foreign:instant",
                            "astimezone changed the instant", src=judge.desc(x), got=judge.desc(ret))
                return
            _judge(M, name, judge.desc(x), inst(x), ret, want, name, type_cls=type(x))
        return post

    M.contract(DateTime, "in_timezone", post=intz_post("in_timezone"), label="DateTime.in_timezone")
    M.contract(DateTime, "astimezone", post=intz_post("astimezone"), label="DateTime.astimezone")

    # -- instance() of aware values
    def inst_post(ret, a, k, snap):
        src = a[1] if len(a) > 1 and isinstance(a[0], type) else a[0]
        if isinstance(a[0], dt.datetime) and not isinstance(a[0], type):
            src = a[0]
        if not isinstance(src, dt.datetime) or src.tzinfo is None or src.utcoffset() is None:
            return
        if isinstance(src, DateTime) and judge.zkind(src)[0] != "foreign":
            want, kind = _want_of_tz(src.tzinfo), "pendulum"
        else:
            want, kind = _foreign_want(src)
        u = inst(src)
        if not MIN_US + DAY_US < u < MAX_US - DAY_US:
            return
        M.count("instance.kind." + kind)
        _judge(M, "instance", f"{kind}:{src!r} off={src.utcoffset()} fold={src.fold}", u, ret, want,
               "instance-" + kind, type_cls=DateTime)

    def inst_exc(e, a, k, snap):
        src = next((x for x in a if isinstance(x, dt.datetime)), None)
        if src is None or src.tzinfo is None or src.utcoffset() is None:
            return
        want, kind = _foreign_want(src)
        if want is None:
            return
        M.check("instance", False, f"C01/instance-{kind}:raised-{type(e).__name__}", "instance() raised on an aware value",
                src=f"{src!r}", exc=repr(e))

    M.contract(DateTime, "instance", post=inst_post, exc=inst_exc, label="DateTime.instance")
    M.contract(pendulum, "instance", post=inst_post, exc=inst_exc, label="pendulum.instance")

    # -- from_timestamp family
    def _ts_us(t):
        if isinstance(t, bool):
            return None
        if isinstance(t, int):
            return t * US
        if isinstance(t, float) and (t * 64).is_integer() and abs(t) < 2**40:
            return int(t * 64) * 15625
        return None

    def fts_post(ret, a, k, snap):
        t = a[0] if a else k.get("timestamp")
        tz = a[1] if len(a) > 1 else k.get("tz", "UTC")
        u = _ts_us(t)
        want = _want_of_arg(pendulum, tz)
        if u is None or want is None:
            M.count("from_timestamp.skipped")
            return
        _judge(M, "from_timestamp", f"t={t!r} tz={tz!r}", u, ret, want, "from_timestamp", type_cls=DateTime)

    M.contract(pendulum, "from_timestamp", post=fts_post, label="pendulum.from_timestamp")

    def cfts_post(ret, a, k, snap):
        t = a[1] if len(a) > 1 else k.get("t")
        tz = a[2] if len(a) > 2 else k.get("tz")
        u = _ts_us(t)
        if u is None or tz is None:
            M.count("fromtimestamp.skipped")
            return
        want = _want_of_arg(pendulum, tz)
        if want is None:
            return
        _judge(M, "fromtimestamp", f"t={t!r} tz={tz!r}", u, ret, want, "fromtimestamp", type_cls=DateTime)

    M.contract(DateTime, "fromtimestamp", post=cfts_post, label="DateTime.fromtimestamp")

    def ufts_post(ret, a, k, snap):
        u = _ts_us(a[1] if len(a) > 1 else k.get("t"))
        if u is None:
            return
        ok = type(ret) is DateTime and ret.tzinfo is None and wall_us(ret) == u
        M.check("fromtimestamp", ok, "C01/utcfromtimestamp", "utcfromtimestamp wrong", t=a[1:], got=judge.desc(ret))

    M.contract(DateTime, "utcfromtimestamp", post=ufts_post, label="DateTime.utcfromtimestamp")

    # -- int_timestamp / timestamp()
    def its_post(ret, a, k, snap):
        x = a[0]
        if x.tzinfo is None or judge.zkind(x)[0] == "foreign":
            return
        M.check("int_timestamp", type(ret) is int and ret == inst(x) // US, "C01/int_timestamp",
                "int_timestamp != floor(instant)", x=judge.desc(x), got=ret, want=inst(x) // US)

    M.contract(DateTime, "int_timestamp", post=its_post, label="DateTime.int_timestamp")
    if M.spec.get("suite"):
        return
    n = 0
    for z in gen.shard_zones(M):
        n += tzdb.Z.get(z).selfcheck()
    M.count("oracle_selfcheck_points", n)
    M.srczones = None


# ---------------------------------------------------------------- workload
def cases(M):
    r = gen.rng(M)
    thorough = M.tier == "thorough"
    names = gen.all_zones()
    pool = gen.hostile(names) + gen.rng(M, "pool").sample(names, 24)
    if M.config == "ext0" and not thorough:
        targets = gen.hostile(names)[M.shard::M.nshards]
    else:
        targets = gen.shard_zones(M, names)
    nsrc = 4 if thorough else 2
    for zn in targets:
        z = tzdb.Z.get(zn)
        for i, (t, ob, oa, _) in enumerate(z.trans):
            for pk, u in gen.probe_instants(t, ob, oa):
                if not gen.ok_instant(u):
                    continue
                for kind in r.sample(SRC_KINDS, nsrc):
                    yield {"op": "conv", "tgt": zn, "u": u, "ti": i, "pk": pk, "sk": kind, "src": r.choice(pool),
                           "third": r.choice(names), "fx": r.choice((r.randrange(-86399, 86400), r.randrange(-1439, 1440) * 60))}
                if pk in ("-1s", "0", "+1s", "-1us", "+1us"):
                    yield {"op": "ts", "tgt": zn, "u": u, "ti": i, "pk": pk}
    # pairwise: all zones as source of a conversion into this shard's targets (random + at a transition of either side)
    npair = len(names) if thorough else 24
    for zn in targets:
        for sn in (names if thorough else r.sample(names, npair)):
            for which in range(3 if thorough else 1):
                zz = tzdb.Z.get(zn if which != 2 else sn)
                if which == 0 or not zz.trans:
                    u = gen.random_instant(r)
                    ti, pk = -1, "rand"
                else:
                    ti = r.randrange(len(zz.trans))
                    t, ob, oa, _ = zz.trans[ti]
                    pk, u = r.choice(gen.probe_instants(t, ob, oa))
                    if not gen.ok_instant(u):
                        continue
                yield {"op": "conv", "tgt": zn, "u": u, "ti": ti, "pk": pk, "sk": r.choice(("pend", "zi", "pytz", "dateutil")),
                       "src": sn, "third": r.choice(names), "fx": r.randrange(-1439, 1440) * 60}
    # fixed-offset targets
    for j in range(20000 if thorough else 2000):
        u = gen.random_instant(r) if j % 2 else gen.modern_instant(r)
        yield {"op": "conv", "tgt": r.choice((r.randrange(-86399, 86400), r.randrange(-1439, 1440) * 60, 0, r.randrange(-95, 96) * 900)), "u": u, "ti": -1,
               "pk": "rand", "sk": r.choice(SRC_KINDS), "src": r.choice(pool), "third": r.choice(names),
               "fx": r.randrange(-1439, 1440) * 60}
    for j in range(20000 if thorough else 3000):
        u = gen.random_instant(r)
        yield {"op": "ts", "tgt": r.choice(names), "u": u - u % 15625, "ti": -1, "pk": "rand", "flt": True}


def _source(M, c):
    """aware value of the requested tzinfo kind denoting (for self-consistent kinds) instant c['u']"""
    P = M.pendulum
    u, sk, sn = c["u"], c["sk"], c["src"]
    if sk == "pend":
        return gen.mk(sn, u)
    if sk == "pendfix":
        off = c["fx"]
        return P.DateTime(*us_to_fields(u + off * US), tzinfo=P.tz.timezone.FixedTimezone(off))
    if sk == "zi":
        f, off, fold = tzdb.Z.get(sn).render(u)
        return dt.datetime(*f, tzinfo=zoneinfo.ZoneInfo(sn), fold=fold)
    utc = dt.datetime(*us_to_fields(u), tzinfo=dt.timezone.utc)
    if sk == "pytz":
        import pytz

        try:
            return utc.astimezone(pytz.timezone(sn))
        except pytz.UnknownTimeZoneError:
            return utc.astimezone(pytz.FixedOffset(c["fx"] // 60)) if c["fx"] % 60 == 0 else utc.astimezone(pytz.utc)
    if sk == "pytzfix":
        import pytz

        m = max(-1439, min(1439, c["fx"] // 60))
        return utc.astimezone(pytz.FixedOffset(m) if m % 7 else pytz.utc)
    if sk == "dateutil":
        from dateutil import tz as dtz

        tzi = dtz.gettz(sn) if c["u"] % 3 else dtz.tzoffset(None, c["fx"])
        if tzi is None:
            tzi = dtz.tzutc()
        return utc.astimezone(tzi)
    off = c["fx"]
    return utc.astimezone(dt.timezone(dt.timedelta(seconds=off)) if off else dt.timezone.utc)


def run(M, c):
    P = M.pendulum
    DateTime = P.DateTime
    if c["op"] == "ts":
        zn, u = c["tgt"], c["u"]
        M.cls("ts", zn, c["ti"], c["pk"])
        t = u / US if c.get("flt") else u // US
        x = P.from_timestamp(t, zn)           # contract judges
        y = DateTime.fromtimestamp(t, P.timezone(zn))
        exp_s = (u // US) if not c.get("flt") else None
        its = x.int_timestamp
        ok = its == u // US and y.int_timestamp == u // US
        M.check("ts_inverse", ok, "C01/ts-inverse", "int_timestamp does not invert from_timestamp", t=t, zone=zn,
                got=[its, y.int_timestamp])
        # timestamp(): the native twin's answer, and exact inverse inside the float-exact range
        twin = dt.datetime(*fields(x), tzinfo=zoneinfo.ZoneInfo(zn), fold=x.fold)
        ts = x.timestamp()
        ok = ts == twin.timestamp() and (abs(u) >= 2**52 or round(ts * US) == (u if c.get("flt") else u // US * US))
        M.check("timestamp", ok, "C01/timestamp", "timestamp() does not invert from_timestamp", t=t, zone=zn, got=ts,
                twin=twin.timestamp())
        M.sample(c)
        return
    tgt = c["tgt"]
    src = _source(M, c)
    su = inst(src)
    nontrivial = c["pk"] != "rand" or c["src"] != tgt
    if nontrivial:
        M.cls(c["sk"], c["src"] if c["sk"] in ("pend", "zi", "pytz", "dateutil") else "-", tgt, c["ti"], c["pk"])
    M.sample(c)
    if su != c["u"]:
        M.count("source_not_selfconsistent." + c["sk"])
    if c["sk"] in ("pend", "pendfix"):
        a = src
    else:
        try:
            a = P.instance(src)                # contract judges (also exceptional exits)
        except Exception:
            M.count("instance_raised")
            return
        if inst(a) != su:
            return                             # already reported by the instance contract
    ttz = P.timezone(tgt) if isinstance(tgt, str) else P.tz.timezone.FixedTimezone(tgt)
    b = a.in_tz(tgt if isinstance(tgt, str) else ttz)   # contract judges
    b2 = a.astimezone(ttz)                    # contract judges
    ttz.convert(src)                          # convert contract on the foreign value itself
    if not isinstance(tgt, str):
        # A -> B -> C with B and C two fixed offsets that differ only in their seconds (their +-HH:MM names coincide)
        c_off = tgt - tgt % 60 + (tgt % 60 + 17) % 60 if tgt >= 0 else -((-tgt) - (-tgt) % 60 + ((-tgt) % 60 + 17) % 60)
        if abs(c_off) < 86400 and c_off != tgt:
            try:
                cz = P.tz.timezone.FixedTimezone(c_off)
                p3 = b.in_tz(cz)                      # contract judges against ('fixed', c_off)
                d3 = a.in_tz(cz)
                M.check("path", (fields(p3), off_us(p3)) == (fields(d3), off_us(d3)) and off_us(p3) == c_off * US, "C01/path-dependence:fixed-same-minute",
                        "A->B->C differs from A->C for two fixed offsets within one minute", a=judge.desc(a), b=judge.desc(b), via=judge.desc(p3),
                        direct=judge.desc(d3), c_offset=c_off)
            except (OverflowError, ValueError):
                M.count("fixed_same_minute_out_of_range")
    if not isinstance(tgt, str) and tgt % 900 == 0:
        # the same fixed offset requested as a number of hours (int or float: -3.5, 5.75, -0.25)
        hrs = tgt // 3600 if tgt % 3600 == 0 and c["u"] % 2 else tgt / 3600
        try:
            bh = a.in_tz(hrs)                 # contract judges against ('fixed', hours * 3600)
            M.check("path", (fields(bh), off_us(bh)) == (fields(b), off_us(b)), "C01/hours-target-differs", "in_tz(hours) differs from in_tz(FixedTimezone(seconds))",
                    a=judge.desc(a), hours=hrs, by_hours=judge.desc(bh), by_seconds=judge.desc(b))
            th = P.from_timestamp(su // US, tz=hrs)      # contract judges
            M.check("path", off_us(th) == tgt * US, "C01/hours-target-differs:from_timestamp", "from_timestamp(tz=hours) is not at the requested offset",
                    hours=hrs, got=judge.desc(th))
        except (OverflowError, ValueError):
            M.count("hours_target_out_of_range")
    # B carries a standard-library tzinfo (the result of astimezone(ZoneInfo / datetime.timezone)): converting it again -
    # astimezone, in_tz, convert - must start from B's instant and agree with the direct conversion
    stz = (zoneinfo.ZoneInfo(("Asia/Kolkata", "America/Sao_Paulo", "Europe/Paris", "Pacific/Chatham")[c["u"] // 3 % 4]) if c["u"] % 3 == 0 else
           dt.timezone(dt.timedelta(seconds=(-25200, 20700, 3600, -12600, 45296)[c["u"] // 3 % 5])) if c["u"] % 3 == 1 else dt.timezone.utc)
    try:
        f = a.astimezone(stz)                  # contract judges (instant)
        f2 = f.astimezone(ttz)                 # contract judges against the target
        f3 = f.in_tz(tgt if isinstance(tgt, str) else ttz)   # contract judges
        f4 = ttz.convert(f)                    # contract judges
        okf = all((fields(v), off_us(v)) == (fields(b2), off_us(b2)) for v in (f2, f3, f4)) and isinstance(f2, DateTime)
        M.check("path", okf, "C01/path-dependence:via-stdlib-tzinfo", "A->B->C differs from A->C when B carries a standard-library tzinfo",
                a=judge.desc(a), b=f.isoformat(), b_tzinfo=repr(stz), via=[judge.desc(f2), judge.desc(f3), judge.desc(f4)], direct=judge.desc(b2))
    except (OverflowError, ValueError):
        M.count("via_stdlib_out_of_range")
    # path independence A->B->C vs A->C
    third = c["third"]
    p1, p2 = b.in_tz(third), a.in_tz(third)
    ok = (fields(p1), off_us(p1), p1.timezone_name) == (fields(p2), off_us(p2), p2.timezone_name) and \
         (fields(b), off_us(b)) == (fields(b2), off_us(b2))
    M.check("path", ok, "C01/path-dependence", "A->B->C differs from A->C", a=judge.desc(a), b=judge.desc(b),
            via=judge.desc(p1), direct=judge.desc(p2))
