"""C14 — pickle, copy and deepcopy reproduce every pendulum value exactly.

Boundary differential monitor: accessor tuple of the original vs the reconstruction for
pickle protocols 0..5, copy.copy and copy.deepcopy.  Contracts on __reduce_ex__ /
__deepcopy__ record which reconstruction paths were actually exercised.
"""
from __future__ import annotations

import copy
import os
import datetime as dt
import pickle

from pvmon import gen
from pvmon.common import US, fields, inst, off_us, td_us, us_to_fields, wall_us
from pvmon.oracle import tzdb

PLAN = {
    "quick": {"configs": ["ext1", "ext0"], "nshards": 12, "nshards_ext0": 4, "timeout": 900},
    "thorough": {"configs": ["ext1", "ext0"], "nshards": 16, "timeout": 3400, "suite": ["ext1"]},
}
DECIDING = ["datetime", "date", "time", "duration", "interval", "timezone"]
FLOORS = {"quick": {"datetime": 100000, "date": 2000, "time": 2000, "duration": 30000, "interval": 20000, "timezone": 2000},
          "thorough": {"datetime": 10**6, "date": 20000, "time": 20000, "duration": 300000, "interval": 200000, "timezone": 4000}}
REQUIRED_HOOKS = []
TECHNIQUE = "differential runtime monitor: public-accessor tuple of original vs reconstruction for pickle protocols 0-5, copy and deepcopy; reduce/deepcopy hooks count the paths exercised; Durations from integer and float arguments and from operator results; DateTimes in a keyless Timezone built from a tz file (copy/deepcopy)"
LEVEL_TEXT = ("every reconstruction (8 per value) is compared with the original through its public accessors (fields, instant, offset, "
              "fold, zone, components, sign, endpoints, absolute flag) and with ==; values include both folds of every overlap of "
              "every zone and every subset of Duration components; held on what was observed")
RULE = ("DateTimes at both passes of every overlap and around every gap of every zone, naive with fold 0/1, fixed offsets; Durations "
        "with each of the 2^9 argument subsets x both signs; Intervals forward/inverted/absolute on Date and DateTime endpoints; "
        "Times with/without tzinfo; Dates; Timezone/FixedTimezone; x {pickle 0..5, copy, deepcopy}; distinct = (type, value class, "
        "zone/transition or component subset, method); non-trivial = ambiguous wall time, fold=1, >= 2 components, inverted or "
        "absolute interval, aware time")
ASSUMPTIONS = ["trusted base: CPython pickle/copy, datetime", "fold is a public accessor and must survive"]

METHODS = [("pickle%d" % p, (lambda v, p=p: pickle.loads(pickle.dumps(v, protocol=p)))) for p in range(6)] + \
          [("copy", copy.copy), ("deepcopy", copy.deepcopy)]


def acc(v, P):
    """public accessor tuple"""
    if isinstance(v, P.Interval):
        return ("Interval", type(v).__name__, acc(v.start, P), acc(v.end, P), bool(v._absolute), _dur(v), td_us(v))
    if isinstance(v, P.Duration):
        return ("Duration", type(v).__name__, _dur(v), td_us(v))
    if isinstance(v, dt.datetime):
        tz = v.tzinfo
        return ("DateTime", type(v).__name__, fields(v), v.fold, None if tz is None else (off_us(v), inst(v)),
                None if tz is None else (type(tz).__name__, getattr(tz, "name", None)), getattr(v, "timezone_name", None))
    if isinstance(v, dt.date):
        return ("Date", type(v).__name__, fields(v))
    if isinstance(v, dt.time):
        tz = v.tzinfo
        return ("Time", type(v).__name__, fields(v), v.fold, None if tz is None else (type(tz).__name__, getattr(tz, "name", None),
                                                                                   str(v.utcoffset())))
    if isinstance(v, dt.tzinfo):
        return ("tz", type(v).__name__, v.name, getattr(v, "offset", None), str(v.utcoffset(dt.datetime(2020, 1, 1))))
    return ("?", repr(v))


def _dur(d):
    return (d.years, d.months, d.weeks, d.remaining_days, d.hours, d.minutes, d.remaining_seconds, d.microseconds, d.invert,
            d.total_seconds())


def setup(M):
    import pendulum

    M.pendulum = pendulum
    P = pendulum

    def counter(name):
        def post(ret, a, k, snap):
            M.count("path." + name)
        return post

    for cls in (P.DateTime, P.Date, P.Time, P.Duration, P.Interval):
        for meth in ("__reduce_ex__", "__reduce__", "__deepcopy__", "__getnewargs__", "__copy__"):
            if meth in cls.__dict__:
                M.contract(cls, meth, post=counter(f"{cls.__name__}.{meth}"), label=f"{cls.__name__}.{meth}")


KW = ("years", "months", "weeks", "days", "hours", "minutes", "seconds", "milliseconds", "microseconds")


def cases(M):
    r = gen.rng(M)
    thorough = M.tier == "thorough"
    names = gen.all_zones()
    zones = gen.hostile(names)[M.shard::M.nshards] if (M.config == "ext0" and not thorough) else gen.shard_zones(M, names)
    for zn in zones:
        z = tzdb.Z.get(zn)
        yield {"k": "tz", "z": zn}
        for i, (t, ob, oa, _) in enumerate(z.trans):
            if not gen.ok_instant(t * US):
                continue
            g = abs(oa - ob)
            if oa < ob:
                # both passes of the repeated wall time
                x = r.randrange(0, g)
                yield {"k": "dt", "z": zn, "u": (t - g + x) * US + r.randrange(US), "ti": i, "pk": "pass1"}
                yield {"k": "dt", "z": zn, "u": (t + x) * US + r.randrange(US), "ti": i, "pk": "pass2"}
            else:
                yield {"k": "dt", "z": zn, "u": (t - 1) * US, "ti": i, "pk": "pre-gap"}
                yield {"k": "dt", "z": zn, "u": t * US, "ti": i, "pk": "post-gap"}
                if i % 2 == 0 or thorough:
                    # a value the class constructor accepts as it is: a wall time inside the gap (either fold) - a
                    # reconstruction has to hand back these very fields, not a normalised neighbour
                    yield {"k": "rawgap", "z": zn, "w": (t + ob) * US + r.randrange(g * US), "f": i // 2 % 2, "ti": i}
            if oa < ob and (thorough or i % 3 == 0):
                x = r.randrange(0, g)
                yield {"k": "iv", "z": zn, "ua": (t - g + x) * US, "ub": (t + r.randrange(0, g)) * US, "abs": i % 2, "ti": i}
    if M.shard % 2 == 0 or thorough:
        # every subset of Duration components, both signs
        for mask in range(1 << 9):
            if mask % M.nshards != M.shard and not thorough:
                pass
            for sign in (1, -1):
                v = {KW[b]: sign * r.randrange(1, (5, 20, 9, 40, 100, 200, 200, 3000, 10**6)[b]) for b in range(9) if mask >> b & 1}
                yield {"k": "dur", "v": v, "mask": mask}
                if mask and r.random() < 0.3:
                    b = r.choice([b for b in range(9) if mask >> b & 1])
                    v2 = dict(v)
                    v2[KW[b]] = -v2[KW[b]]
                    yield {"k": "dur", "v": v2, "mask": mask, "mixed": True}
    # Durations built from FLOAT arguments (timedelta accepts them for every unit but years/months): tenths, binary
    # fractions, values whose microsecond count sits on or next to a half (x.xxx5 ms), and Durations that are the
    # result of an operator (scaled, divided, negated, summed) rather than of the constructor
    for j in range((6000 if thorough else 1200) // M.nshards + 1):
        v = {}
        for b in range(2, 9):
            if r.random() < 0.3:
                lim = (20, 9, 40, 100, 200, 3000, 10**6)[b - 2]
                x = r.choice((r.randrange(-lim, lim) + r.choice((0.5, 0.25, 0.1, 0.75, 1 / 3, 0.0005, 0.3455, 0.0905)),
                              round(r.uniform(-lim, lim), 3) + 0.0005, round(r.uniform(-lim, lim), 4), r.uniform(-lim, lim), float(r.randrange(-lim, lim))))
                v[KW[b]] = x
        if not v:
            v = {"milliseconds": round(r.uniform(0, 5000), 3) + 0.0005}
        if r.random() < 0.4:
            v["years"] = r.randrange(-5, 6)
            v["months"] = r.randrange(-20, 21)
        yield {"k": "dur", "v": v, "mask": -1, "float": True}
        yield {"k": "durop", "v": {kk: int(x) for kk, x in v.items()}, "op": j % 6, "f": r.choice((0.5, 1.5, 0.1, 1 / 3, 2.5005, -0.75)), "n": r.choice((2, 3, 7, -4))}
    for j in range((40 if thorough else 12) if M.shard % 2 == 0 else 0):
        yield {"k": "keyless", "z": ("Europe/Paris", "America/New_York", "Australia/Lord_Howe", "Asia/Tokyo")[j % 4], "u": gen.modern_instant(r), "u2": gen.random_instant(r)}
    for j in range(20000 if thorough else 2000):
        kind = ("naive", "fixed", "date", "time", "timetz", "ivdate", "ivdt", "ivnaive", "fixedtz", "randdt")[j % 10]
        yield {"k": kind, "u": gen.random_instant(r), "u2": gen.random_instant(r), "f": j % 2, "off": r.choice((r.randrange(-86399, 86400), r.randrange(-1439, 1440) * 60)),
               "abs": (j // 10) % 2, "z": r.choice(names)}


def _judge(M, mon, v, sig_extra="", methods=None, **ctx):
    P = M.pendulum
    a0 = acc(v, P)
    for name, fn in (methods or METHODS):
        try:
            r = fn(v)
        except Exception as e:  # noqa: BLE001
            M.check(mon, False, f"C14/{a0[0]}:{name[:6]}:raised-{type(e).__name__}{sig_extra}", "reconstruction raised",
                    value=repr(v), method=name, exc=repr(e), **ctx)
            continue
        bad = []
        if type(r) is not type(v):
            bad.append("type")
        else:
            a1 = acc(r, P)
            if a1 != a0:
                bad.append(_diff(a0, a1))
            elif a0[0] in ("Date", "Time", "Duration", "Interval") or a0[0] == "DateTime":
                try:
                    if not (r == v) and not (a0[0] == "DateTime"):
                        bad.append("not-equal")
                except Exception as e:  # noqa: BLE001
                    bad.append("eq-raised")
        meth = "pickle" if name.startswith("pickle") else name
        kindbad = "type" if bad == ["type"] else ("not-equal" if bad == ["not-equal"] else "accessors")
        M.check(mon, not bad, f"C14/{a0[0]}:{meth}:{kindbad}{sig_extra}", "reconstruction differs from the original in: " + "+".join(bad),
                value=repr(v), method=name, original=a0, got=acc(r, P) if type(r) is type(v) else repr(r), **ctx)


def _diff(a0, a1):
    if a0[0] == "DateTime":
        n = ("kind", "type", "fields", "fold", "offset-instant", "tz", "tzname")
        return "+".join(n[i] for i in range(len(a0)) if a0[i] != a1[i])
    if a0[0] == "Duration":
        names = ("years", "months", "weeks", "days", "hours", "minutes", "seconds", "microseconds", "invert", "total")
        return "+".join(names[i] for i in range(10) if a0[2][i] != a1[2][i]) or "native"
    if a0[0] == "Interval":
        n = ("kind", "type", "start", "end", "absolute", "components", "native")
        return "+".join(n[i] for i in range(len(a0)) if a0[i] != a1[i])
    return "accessors"


def run(M, c):
    P = M.pendulum
    FT = P.tz.timezone.FixedTimezone
    k = c["k"]
    M.sample(c)
    if k == "tz":
        M.cls("tz", c["z"])
        _judge(M, "timezone", P.timezone(c["z"]))
        return
    if k == "dt":
        v = gen.mk(c["z"], c["u"])
        M.cls("dt", c["z"], c["ti"], c["pk"])
        amb = ":ambiguous" if c["pk"] in ("pass1", "pass2") else ""
        _judge(M, "datetime", v, sig_extra=amb + (":fold1" if v.fold else ""))
        return
    if k == "rawgap":
        v = P.DateTime(*us_to_fields(c["w"]), tzinfo=P.timezone(c["z"]), fold=c["f"])
        M.cls("rawgap", c["z"], c["ti"], c["f"])
        _judge(M, "datetime", v, sig_extra=":skipped-wall-time" + (":fold1" if c["f"] else ""))
        f2 = P.DateTime(*us_to_fields(c["w"]), tzinfo=P.tz.timezone.FixedTimezone(3600 * (c["ti"] % 5 - 2)), fold=1)
        _judge(M, "datetime", f2, sig_extra=":fixed:fold1")
        return
    if k == "iv":
        a, b = gen.mk(c["z"], c["ua"]), gen.mk(c["z"], c["ub"])
        M.cls("iv", c["z"], c["ti"], c["abs"])
        _judge(M, "interval", P.Interval(a, b, absolute=bool(c["abs"])), sig_extra=":ambiguous-endpoints")
        _judge(M, "interval", P.Interval(b, a, absolute=bool(c["abs"])), sig_extra=":ambiguous-endpoints")
        return
    if k == "dur":
        try:
            d = P.Duration(**c["v"])
        except OverflowError:
            return
        M.cls("dur", c["mask"], tuple(sorted((n, x > 0) for n, x in c["v"].items())))
        _judge(M, "duration", d, sig_extra=(":weeks" if d.weeks else "") + (":years-months" if d.years or d.months else "") + (":float-args" if c.get("float") else ""))
        return
    if k == "keyless":
        # DateTimes in a Timezone that has no key: built from a tz file (what pendulum makes of TZ=:/path or of an
        # /etc/localtime that is a plain file).  The standard library refuses to pickle such a zone, so only copy and
        # deepcopy - which the statement demands of every DateTime - are judged
        import zoneinfo as _zi

        path = next((os.path.join(d_, c["z"]) for d_ in _zi.TZPATH if os.path.isfile(os.path.join(d_, c["z"]))), None)
        if path is None:
            M.count("keyless.no_tz_file")
            return
        with open(path, "rb") as f_:
            tz = P.tz.timezone.Timezone.from_file(f_)
        for u_, fold in ((c["u"], 0), (c["u"], 1), (c["u2"], 0)):
            F_ = us_to_fields(u_)
            try:
                v = P.DateTime(*F_, tzinfo=tz, fold=fold)
                v.utcoffset()
            except (OverflowError, ValueError):
                continue
            _judge(M, "datetime", v, sig_extra=":keyless-timezone", methods=METHODS[6:], zone_file=c["z"])
        M.cls("keyless", c["z"])
        return
    if k == "durop":
        try:
            d = P.Duration(**c["v"])
            e = P.Duration(days=3, seconds=7, microseconds=11)
            d = (lambda: d * c["f"], lambda: d / c["n"], lambda: -d, lambda: d + e, lambda: d // c["n"], lambda: (d * c["n"]) % e)[c["op"]]()
        except (OverflowError, ZeroDivisionError):
            return
        if not isinstance(d, P.Duration):
            return
        M.cls("durop", c["op"], bool(d.years or d.months))
        _judge(M, "duration", d, sig_extra=":operator-result")
        return
    F = us_to_fields(c["u"])
    if k == "naive":
        M.cls("naive", c["f"])
        _judge(M, "datetime", P.DateTime(*F, fold=c["f"]), sig_extra=":naive" + (":fold1" if c["f"] else ""))
    elif k == "fixed":
        M.cls("fixed", c["off"] % 60 == 0)
        _judge(M, "datetime", P.DateTime(*us_to_fields(c["u"] + c["off"] * US), tzinfo=FT(c["off"])), sig_extra=":fixed")
    elif k == "randdt":
        M.cls("randdt", c["z"])
        _judge(M, "datetime", gen.mk(c["z"], c["u"]))
    elif k == "date":
        M.cls("date", F[1])
        _judge(M, "date", P.Date(*F[:3]))
    elif k == "time":
        M.cls("time", F[3])
        t1 = P.Time(*F[3:])
        _judge(M, "time", t1)
        # the durations Time.diff() hands out (AbsoluteDuration by default, signed Duration with abs=False), either order
        t2 = P.Time((F[3] + 7) % 24, F[5], F[4], (F[6] * 7) % 10**6)
        for d_, tag in ((t1.diff(t2), ":time-diff-absolute"), (t2.diff(t1), ":time-diff-absolute"), (t1.diff(t2, False), ":time-diff-signed"),
                        (t2.diff(t1, False), ":time-diff-signed")):
            _judge(M, "duration", d_, sig_extra=tag)
    elif k == "timetz":
        M.cls("timetz", c["off"] % 60 == 0, c["f"])
        tz = FT(c["off"]) if c["f"] else P.UTC
        _judge(M, "time", P.Time(*F[3:], tzinfo=tz), sig_extra=":aware")
        # a time of day carrying a region zone (no offset without a date) or a standard-library zone
        import zoneinfo as _zi

        for rz, tag in ((P.timezone(("Europe/Paris", "America/New_York", "Asia/Kathmandu")[c["off"] % 3]), ":region-zone"),
                        (_zi.ZoneInfo("Europe/London"), ":zoneinfo")):
            _judge(M, "time", P.Time(*F[3:], tzinfo=rz, fold=c["f"]), sig_extra=":aware" + tag)
    elif k == "fixedtz":
        M.cls("fixedtz", c["off"] % 60 == 0)
        _judge(M, "timezone", FT(c["off"]))
        _judge(M, "timezone", FT(c["off"], "name%d" % c["off"]))
    elif k in ("ivdate", "ivdt", "ivnaive"):
        F2 = us_to_fields(c["u2"])
        if k == "ivdate":
            a, b = P.Date(*F[:3]), P.Date(*F2[:3])
        elif k == "ivnaive":
            a, b = P.DateTime(*F), P.DateTime(*F2)
        else:
            a, b = gen.mk(c["z"], c["u"]), P.DateTime(*us_to_fields(c["u2"] + c["off"] * US), tzinfo=FT(c["off"]))
        inv = wall_us(a) > wall_us(b)
        M.cls(k, inv, c["abs"])
        _judge(M, "interval", P.Interval(a, b, absolute=bool(c["abs"])),
               sig_extra=(":inverted" if inv else "") + (":absolute" if c["abs"] else ""))
