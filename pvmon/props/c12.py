"""C12 — start_of/end_of delimit exactly the calendar unit that contains the value.

Contracts on DateTime.start_of/end_of and Date.start_of/end_of check the property's
clauses one by one: same unit label, start <= x <= end as instants, the microsecond
before/after (computed on the UTC line and rendered with the tz-database oracle) is in a
different unit, timezone kept, idempotent.  Provenance independence at the boundary.
Labels: day..century = truncated local date fields (week: date of the configured week
start); hour/minute/second = truncated local fields AND the UTC offset (the two passes
of a repeated hour are two hours).
"""
from __future__ import annotations

import datetime as dt
import sys

from pvmon import gen
from pvmon.common import DAY_US, MAX_US, MIN_US, ORD0, US, fields, inst, off_us, us_to_fields, wall_us
from pvmon.oracle import judge, tzdb

PLAN = {
    "quick": {"configs": ["ext1", "ext0"], "nshards": 12, "nshards_ext0": 4, "timeout": 900},
    "thorough": {"configs": ["ext1", "ext0"], "nshards": 16, "timeout": 6000, "suite": ["ext1"]},
}
DECIDING = ["dt.start_of", "dt.end_of", "date.start_of", "date.end_of", "provenance"]
FLOORS = {"quick": {"dt.start_of": 100000, "dt.end_of": 100000, "date.start_of": 3000, "date.end_of": 3000, "provenance": 30000},
          "thorough": {"dt.start_of": 10**6, "dt.end_of": 10**6, "date.start_of": 30000, "date.end_of": 30000, "provenance": 300000}}
REQUIRED_HOOKS = ["DateTime.start_of", "DateTime.end_of", "Date.start_of", "Date.end_of"]
TECHNIQUE = "runtime contracts on start_of/end_of checking the property's clauses (unit membership, ordering, +-1us neighbours rendered by the tz-database oracle, idempotence) plus a provenance-independence checker; both passes of a repeated wall time asked within one case (history workload)"
LEVEL_TEXT = ("every observed start_of/end_of call is judged clause by clause with an independently parsed tz database; values are placed "
              "on every day whose first or last wall time is skipped or repeated and around every sub-day gap/overlap, obtained three "
              "ways (constructed fold 1, constructed fold 0, converted); 9 units x 7 week configurations; held on what was observed")
RULE = ("x at several times of every day of every zone whose 00:00:00 or 23:59:59.999999 is skipped or repeated, of the neighbouring days, "
        "and around every sub-day gap/overlap (for second/minute/hour), plus ordinary days, naive values and Dates; 3 provenances; 9 units; "
        "7 consistent week configurations; distinct = (zone, transition index, unit, provenance, probe); non-trivial = the unit's first "
        "or last wall time is skipped or repeated, or the value itself lies in an overlap")
ASSUMPTIONS = ["trusted base: CPython datetime/zoneinfo and the tz files",
               "decades are xxx0-xxx9 and centuries xx01-xx00 (the convention the upstream tests pin)",
               "inside a repeated hour the two passes count as distinct hour/minute/second units"]

UNITS = ("second", "minute", "hour", "day", "week", "month", "year", "decade", "century")
SUB = {"second": 6, "minute": 5, "hour": 4}


def label(unit, f, off, ws):
    """f = 7 fields; off seconds; ws = week start weekday (0=Monday)"""
    if unit in SUB:
        return tuple(f[:SUB[unit]]) + (off,)
    y, m, d = f[:3]
    if unit == "day":
        return (y, m, d)
    if unit == "week":
        o = dt.date(y, m, d).toordinal()
        return o - (dt.date(y, m, d).weekday() - ws) % 7
    if unit == "month":
        return (y, m)
    if unit == "year":
        return y
    if unit == "decade":
        return y // 10
    return (y - 1) // 100


def _lab_at(z, u, unit, ws):
    f, off, fold = z.render(u)
    return label(unit, f, off, ws)


# the week configuration as last given to the public setters (observed by contracts on them, from whatever thread): the
# oracle follows what week_starts_at()/week_ends_at() were told, not the library's own storage of it
_CFG = {"ws": 0, "we": 6}


def _in_thread(f):
    """f() evaluated in a fresh thread (the harness waits for it: no concurrency, only another thread's view of the
    process-wide configuration)"""
    import threading

    box = []

    def body():
        try:
            box.append(("ok", f()))
        except BaseException as e:  # noqa: BLE001
            box.append(("raise", e))

    t = threading.Thread(target=body, daemon=True)
    t.start()
    t.join()
    if box[0][0] == "raise":
        raise box[0][1]
    return box[0][1]


def judge_bound(M, name, x, unit, ret, first):
    P = M.pendulum
    ws = _CFG["ws"]
    we = _CFG["we"]
    if unit == "week" and (ws - we) % 7 != 1:
        M.count("inconsistent_week_config_skipped")
        return
    k = judge.zkind(x)
    bad = []
    if type(ret) is not type(x):
        bad.append("type")
    elif judge.zkind(ret) != k or (k[0] == "fixed" and (ret.tzname(), getattr(ret, "timezone_name", None)) != (x.tzname(), getattr(x, "timezone_name", None))):
        bad.append("zone")            # "both keep the timezone": kind, offset and - for a named fixed offset - its name
    elif k[0] == "naive" or k[0] == "fixed":
        off = 0 if k[0] == "naive" else k[1]
        lx, lr = label(unit, fields(x), off, ws), label(unit, fields(ret), off, ws)
        if lx != lr:
            bad.append("unit")
        wx, wr = wall_us(x), wall_us(ret)
        if (first and wr > wx) or (not first and wr < wx):
            bad.append("order")
        nb = wr - 1 if first else wr + 1
        if MIN_US <= nb <= MAX_US and label(unit, us_to_fields(nb), off, ws) == lx:
            bad.append("neighbour")
    elif k[0] == "iana":
        if not judge.valid_local(x):
            M.count(name + ".invalid_input_skipped")
            return
        z = tzdb.Z.get(k[1])
        if ret.tzinfo is not None and not (MIN_US + 2 * DAY_US < inst(ret) < MAX_US - 2 * DAY_US):
            M.count(name + ".result_at_range_edge_skipped")
            return
        if not judge.valid_local(ret):
            bad.append("invalid-local")
        else:
            # sub-day units: inside a fold "the hour" can be read as the wall-clock hour (both passes) or as one pass
            # (fields + offset); the statement fixes neither, so a result passes when ALL clauses hold under one reading
            readings = (True, False) if unit in SUB else (True,)
            best = None
            for with_off in readings:
                b = []
                ox = off_us(x) // US if with_off else 0
                lx = label(unit, fields(x), ox, ws)
                if label(unit, fields(ret), off_us(ret) // US if with_off else 0, ws) != lx:
                    b.append("unit")
                ux, ur = inst(x), inst(ret)
                if (first and ur > ux) or (not first and ur < ux):
                    b.append("order")
                nb = ur - 1 if first else ur + 1
                if MIN_US + DAY_US < nb < MAX_US - DAY_US:
                    fn, offn, _ = z.render(nb)
                    if label(unit, fn, offn if with_off else 0, ws) == lx:
                        b.append("neighbour")
                if best is None or len(b) < len(best):
                    best = b
            bad.extend(best)
    else:
        return
    if not bad:
        # idempotence (evaluated with nested contracts silenced)
        again = ret.start_of(unit) if first else ret.end_of(unit)
        if fields(again) != fields(ret) or (ret.tzinfo is not None and off_us(again) != off_us(ret)):
            bad.append("idempotence")
    cls = (_situation(x, unit, first, ws) if k[0] == "iana" else "plain") if bad else "-"
    M.check(name, not bad, f"C12/{'start' if first else 'end'}_of:{_ug(unit)}:{'+'.join(bad)}:{cls}:fold{getattr(x, 'fold', 0)}",
            f"{name}({unit}) does not delimit the unit containing the value", x=judge.desc(x), unit=unit, got=judge.desc(ret),
            week_starts_at=ws, situation=cls)


def _ug(unit):
    return "subday" if unit in SUB else unit if unit in ("day", "week") else "larger"


def _boundary_wall(x, unit, first, ws):
    """wall (us) of the unit's first / last wall time, from x's local fields"""
    y, m, d, H, Mi, S, us = fields(x)
    if unit in SUB:
        n = SUB[unit]
        f = list(fields(x))
        lo = f[:n] + [0] * (7 - n)
        hi = f[:n] + [23, 59, 59, 999999][n - 3:]
        return wall_us(dt.datetime(*(lo if first else hi)))
    if unit == "day":
        d0 = d1 = dt.date(y, m, d)
    elif unit == "week":
        o = dt.date(y, m, d).toordinal() - (dt.date(y, m, d).weekday() - ws) % 7
        if o < 1 or o + 6 > dt.date.max.toordinal():
            return None
        d0, d1 = dt.date.fromordinal(o), dt.date.fromordinal(o + 6)
    elif unit == "month":
        import calendar

        d0, d1 = dt.date(y, m, 1), dt.date(y, m, calendar.monthrange(y, m)[1])
    else:
        span = {"year": 1, "decade": 10, "century": 100}[unit]
        y0 = y if unit == "year" else (y // 10 * 10 if unit == "decade" else (y - 1) // 100 * 100 + 1)
        if y0 < 1 or y0 + span - 1 > 9999:
            return None
        d0, d1 = dt.date(y0, 1, 1), dt.date(y0 + span - 1, 12, 31)
    if first:
        return (d0.toordinal() - ORD0) * DAY_US
    return (d1.toordinal() - ORD0) * DAY_US + DAY_US - 1


def _situation(x, unit, first, ws):
    """classifier: how the unit's first/last wall time exists in the zone (from the input only)"""
    try:
        w = _boundary_wall(x, unit, first, ws)
    except ValueError:
        return "edge"
    if w is None or not (MIN_US + 3 * DAY_US < w < MAX_US - 3 * DAY_US):
        return "edge"
    z = tzdb.Z.get(x.tzinfo.key)
    cls, cands, gap = z.classify_wall(w)
    if cls == "gap":
        t, ob, oa = gap
        inside = (t + ob) * US < w < (t + oa) * US - (0 if first else 1)
        edge_first = first and w == (t + ob) * US
        edge_last = (not first) and w == (t + oa) * US - 1
        if (oa - ob) >= 86400 and unit not in SUB:
            return "boundary-skipped:whole-day-skipped"
        return "boundary-skipped" + ("" if (edge_first or edge_last) else ":strictly-inside-gap")
    if cls == "twice":
        return "boundary-repeated"
    if cls == "exotic":
        return "boundary-exotic"
    # the boundary exists once; is x itself in an overlap?
    c2 = z.classify_wall(wall_us(x))[0]
    return "boundary-once" + (":x-ambiguous" if c2 == "twice" else "")


def setup(M):
    import pendulum
    from pendulum.date import Date
    from pendulum.datetime import DateTime

    M.pendulum = pendulum

    def mk(name, first):
        def post(ret, a, k, snap):
            unit = a[1] if len(a) > 1 else k.get("unit")
            if unit not in UNITS:
                return
            judge_bound(M, name, a[0], unit, ret, first)
        return post

    def raised(name):
        def exc(e, a, k, snap):
            x = a[0]
            unit = a[1] if len(a) > 1 else k.get("unit")
            # a century needs 100 years of room; everything else here is far from the ends of the range
            if unit not in UNITS or not (200 <= x.year <= 9800):
                return
            M.check(name, False, f"C12/{name.split('.')[-1]}:{_ug(unit)}:raised-{type(e).__name__}", f"{name}({unit}) raised for a value far from the ends of the range",
                    x=repr(x), exc=repr(e)[:120])
        return exc

    _CFG["ws"], _CFG["we"] = int(pendulum._WEEK_STARTS_AT), int(pendulum._WEEK_ENDS_AT)     # initial state only

    def setter(key):
        def post(ret, a, k, snap):
            _CFG[key] = int(a[0] if a else k["wday"])
        return post

    for owner in (pendulum, sys.modules["pendulum.helpers"]):
        M.contract(owner, "week_starts_at", post=setter("ws"), label=f"{owner.__name__}.week_starts_at")
        M.contract(owner, "week_ends_at", post=setter("we"), label=f"{owner.__name__}.week_ends_at")

    M.contract(DateTime, "start_of", post=mk("dt.start_of", True), exc=raised("dt.start_of"), label="DateTime.start_of")
    M.contract(DateTime, "end_of", post=mk("dt.end_of", False), exc=raised("dt.end_of"), label="DateTime.end_of")

    def mkd(name, first):
        def post(ret, a, k, snap):
            x = a[0]
            unit = a[1] if len(a) > 1 else k.get("unit")
            if isinstance(x, DateTime) or unit not in UNITS[3:]:
                return
            ws = _CFG["ws"]
            if unit == "week" and (ws - _CFG["we"]) % 7 != 1:
                return
            bad = []
            if type(ret) is not type(x):
                bad.append("type")
            else:
                lx = label(unit, fields(x) + (0, 0, 0, 0), 0, ws)
                if label(unit, fields(ret) + (0, 0, 0, 0), 0, ws) != lx:
                    bad.append("unit")
                if (first and ret > x) or (not first and ret < x):
                    bad.append("order")
                o = ret.toordinal() + (-1 if first else 1)
                if 1 <= o <= dt.date.max.toordinal():
                    nd = dt.date.fromordinal(o)
                    if label(unit, (nd.year, nd.month, nd.day, 0, 0, 0, 0), 0, ws) == lx:
                        bad.append("neighbour")
                if not bad:
                    again = ret.start_of(unit) if first else ret.end_of(unit)
                    if fields(again) != fields(ret):
                        bad.append("idempotence")
            M.check(name, not bad, f"C12/date:{'start' if first else 'end'}_of:{unit}:{'+'.join(bad)}",
                    "Date start_of/end_of does not delimit the unit", x=repr(x), unit=unit, got=repr(ret), week_starts_at=ws)
        return post

    M.contract(Date, "start_of", post=mkd("date.start_of", True), exc=raised("date.start_of"), label="Date.start_of")
    M.contract(Date, "end_of", post=mkd("date.end_of", False), exc=raised("date.end_of"), label="Date.end_of")
    if M.spec.get("suite"):
        return
    n = 0
    for z in gen.shard_zones(M):
        n += tzdb.Z.get(z).selfcheck()
    M.count("oracle_selfcheck_points", n)


# ---------------------------------------------------------------- workload
def cases(M):
    r = gen.rng(M)
    thorough = M.tier == "thorough"
    names = gen.all_zones()
    zones = gen.hostile(names)[M.shard::M.nshards] if (M.config == "ext0" and not thorough) else gen.shard_zones(M, names)
    for zn in zones:
        z = tzdb.Z.get(zn)
        for i, (t, ob, oa, _) in enumerate(z.trans):
            if not gen.ok_instant(t * US, 800):
                continue
            lo, hi = sorted(((t + ob) * US, (t + oa) * US))     # walls delimiting the gap / overlap
            g = abs(oa - ob) * US
            # does the gap/overlap touch a day boundary?
            touches_midnight = (lo // DAY_US != (hi - 1) // DAY_US) or lo % DAY_US == 0 or hi % DAY_US == 0
            offs = [-g - 1, -1, 0, g // 2, g - 1, g, g + 3600 * US, -7 * 3600 * US, 9 * 3600 * US, -30 * 3600 * US, 30 * 3600 * US]
            picks = offs if thorough else (r.sample(offs, 4) if touches_midnight else r.sample(offs, 1))
            if oa > ob and touches_midnight:
                # the value sits on ANOTHER day of the week at a time of day that this gap skips on its own day
                # (a jump that carries the time of day to the boundary day lands in the gap)
                picks = list(picks) + [g // 2 + k * DAY_US for k in ((-1, -3, 2) if not thorough else (-1, -2, -3, -5, 1, 2, 4, 6))]
            for d in picks:
                u = t * US + d
                if thorough:
                    units = UNITS
                elif touches_midnight:
                    units = ("day", "week", "month") + tuple(r.sample(("second", "minute", "hour", "year", "decade", "century"), 2))
                else:
                    units = tuple(r.sample(("second", "minute", "hour"), 2)) + tuple(r.sample(UNITS[3:], 1))
                yield {"z": zn, "u": u, "ti": i, "d": d, "units": list(units), "wk": r.randrange(7), "mid": touches_midnight}
            if oa < ob and (thorough or i % 3 == 0):
                # both passes of ONE repeated wall time (identical fields, same tzinfo object: they compare and hash equal)
                # asked for their boundaries one after the other under one week configuration, in both orders
                yield {"k": "foldhist", "z": zn, "w": lo + r.randrange(hi - lo), "ti": i, "first": r.randrange(2), "wk": r.randrange(7), "u": t * US, "d": 0,
                       "units": ["second", "minute", "hour", "day"], "mid": touches_midnight}
    if M.shard % 4 == 1:
        yield {"k": "date-edge", "wk": 0, "z": "UTC", "u": 0, "ti": -1, "d": 0, "units": [], "mid": False}
    for j in range(60000 if thorough else 4000):
        u = gen.random_instant(r) if j % 2 else gen.modern_instant(r)
        yield {"z": r.choice(names), "u": u, "ti": -1, "d": 0, "units": list(UNITS), "wk": j % 7, "mid": False,
               "kind": ("zone", "naive", "fixed", "date")[j % 4]}


def _provenances(M, zn, u):
    """the same (instant, zone) obtained three ways"""
    P = M.pendulum
    f, off, fold = tzdb.Z.get(zn).render(u)
    out = [("raw", gen.mk(zn, u))]
    M.quiet += 1
    try:
        for fl in (1, 0):
            try:
                c = P.datetime(*f, tz=zn, fold=fl)
                if inst(c) == u:
                    out.append((f"constructed-fold{fl}", c))
            except Exception:  # noqa: BLE001
                pass
        try:
            c = P.DateTime(*us_to_fields(u), tzinfo=P.UTC).in_tz(zn)
            if inst(c) == u:
                out.append(("converted", c))
        except Exception:  # noqa: BLE001
            pass
        if u % 5 == 0:
            try:
                s = "%04d-%02d-%02dT%02d:%02d:%02d.%06d" % us_to_fields(u) + "+00:00"
                c = P.parse(s).in_tz(zn)
                if inst(c) == u:
                    out.append(("parsed", c))
            except Exception:  # noqa: BLE001
                pass
    finally:
        M.quiet -= 1
    return out


def _date_edges(M):
    """Date.start_of/end_of('week'|'day'|'month') in the first and last three weeks of the representable range, under all seven
    week configurations: the boundary either is a representable date and must be returned, or is not and the call must raise"""
    P = M.pendulum
    lo, hi = dt.date.min.toordinal(), dt.date.max.toordinal()
    try:
        for wk in range(7):
            P.week_starts_at(P.WeekDay(wk))
            P.week_ends_at(P.WeekDay((wk - 1) % 7))
            for o in list(range(lo, lo + 21)) + list(range(hi - 20, hi + 1)):
                d = dt.date.fromordinal(o)
                x = P.Date(d.year, d.month, d.day)
                back = (d.weekday() - wk) % 7
                for name, e in (("start_of", o - back), ("end_of", o - back + 6)):
                    want = dt.date.fromordinal(e) if lo <= e <= hi else None
                    M.quiet += 1
                    try:
                        try:
                            got = getattr(x, name)("week")
                            res = (got.year, got.month, got.day)
                        except (OverflowError, ValueError) as ex:
                            res = "raised-" + type(ex).__name__
                    finally:
                        M.quiet -= 1
                    ok = res == (want.year, want.month, want.day) if want is not None else isinstance(res, str)
                    M.check("date." + name, ok, f"C12/date:{name}:week:range-edge:" + ("raised-although-representable" if isinstance(res, str) else "wrong"),
                            f"Date.{name}('week') at the end of the representable range", x=str(d), week_starts_at=wk, got=res, want=str(want))
                    M.cls("date-edge", wk, o - lo if o < lo + 30 else o - hi, name)
    finally:
        P.week_starts_at(P.MONDAY)
        P.week_ends_at(P.SUNDAY)


def run(M, c):
    P = M.pendulum
    if c.get("k") == "date-edge":
        M.sample(c)
        return _date_edges(M)
    kind = c.get("kind", "zone")
    wk = c["wk"]
    P.week_starts_at(P.WeekDay(wk))
    P.week_ends_at(P.WeekDay((wk - 1) % 7))
    try:
        M.sample(c)
        if c.get("k") == "foldhist":
            tz = P.timezone(c["z"])
            F = us_to_fields(c["w"])
            pair = [P.DateTime(*F, tzinfo=tz, fold=0), P.DateTime(*F, tzinfo=tz, fold=1)]
            if c["first"]:
                pair.reverse()
            for unit in c["units"]:
                for x in pair:
                    M.cls("foldhist", c["z"], c["ti"], unit, x.fold, c["first"])
                    try:
                        x.start_of(unit)            # contracts judge each call on its own
                        x.end_of(unit)
                    except (OverflowError, ValueError):
                        M.count("out_of_range")
            return
        if kind == "date":
            x = P.Date(*us_to_fields(c["u"])[:3])
            for unit in UNITS[3:]:
                M.cls("date", unit, wk)
                try:
                    if c["u"] % 4 == 0:
                        _in_thread(lambda: (x.start_of(unit), x.end_of(unit)))      # noqa: B023
                    x.start_of(unit)
                    x.end_of(unit)
                except (OverflowError, ValueError):
                    M.count("out_of_range")
            return
        if kind == "naive":
            xs = [("naive", P.DateTime(*us_to_fields(c["u"])))]
        elif kind == "fixed":
            off = c["u"] % 172799 - 86399
            # a third of the fixed-offset values carry a zone object with a name of its own
            ftz = P.tz.timezone.FixedTimezone(off, name="CUSTOM") if c["u"] % 3 == 0 else P.tz.timezone.FixedTimezone(off)
            xs = [("fixed", P.DateTime(*us_to_fields(c["u"] + off * US), tzinfo=ftz))]
        else:
            xs = _provenances(M, c["z"], c["u"])
        if c["u"] % 4 == 0:
            # the same value asked from another thread than the one that configured the week
            xs = xs + [("thread", xs[0][1])]
        for unit in c["units"]:
            res = []
            for prov, x in xs:
                try:
                    if prov == "thread":
                        s, e = _in_thread(lambda: (x.start_of(unit), x.end_of(unit)))      # noqa: B023
                    else:
                        s = x.start_of(unit)        # contracts judge
                        e = x.end_of(unit)
                except (OverflowError, ValueError):
                    M.count("out_of_range")
                    continue
                res.append((prov, x.fold, (fields(s), off_us(s) if s.tzinfo else None), (fields(e), off_us(e) if e.tzinfo else None)))
                if kind == "zone" and prov == "raw":
                    sit = _situation(x, unit, True, wk) + "/" + _situation(x, unit, False, wk)
                    if "once/boundary-once" not in sit or "ambiguous" in sit:
                        M.cls(c["z"], c["ti"], unit, c["d"])
            if len(res) > 1:
                same = all(r_[2:] == res[0][2:] for r_ in res)
                sit = (_situation(xs[0][1], unit, True, wk) + "/" + _situation(xs[0][1], unit, False, wk)) if kind == "zone" else "plain"
                M.check("provenance", same, f"C12/provenance:{_ug(unit)}:{sit}",
                        "start_of/end_of depend on how the value was obtained", zone=c["z"], instant_us=c["u"], unit=unit, results=res)
    finally:
        P.week_starts_at(P.MONDAY)
        P.week_ends_at(P.SUNDAY)
