"""C03 — adding fixed-length units moves the instant by exactly that elapsed time.

Monitors: contracts on DateTime.add / subtract (calls with only h/m/s/us, integer
arguments), DateTime._add_timedelta_ / _subtract_timedelta (plain timedelta operands),
operators + - radd and the add->subtract inverse at the workload boundary.
Oracle: integer-us instants from the objects' own fields and utcoffset(); tz-database
rendering of the expected instant.
"""
from __future__ import annotations

import bisect
import datetime as dt

from pvmon import gen
from pvmon.common import MAX_US, MIN_US, US, DAY_US, inst, td_us, wall_us, off_us
from pvmon.oracle import judge, tzdb

PLAN = {
    "quick": {"configs": ["ext1", "ext0"], "nshards": 12, "nshards_ext0": 4, "timeout": 900, "tz": ["UTC", "America/New_York", "Europe/Paris", "Australia/Lord_Howe"]},
    "thorough": {"configs": ["ext1", "ext0"], "nshards": 16, "timeout": 3000, "suite": ["ext1"], "tz": ["UTC", "America/New_York", "Europe/Paris", "Australia/Lord_Howe"]},
}
DECIDING = ["add.exact", "subtract.exact", "td_add.exact", "td_sub.exact", "op.exact", "inverse", "concurrent"]
FLOORS = {"quick": {"add.exact": 50000, "inverse": 20000, "op.exact": 5000, "concurrent": 20000},
          "thorough": {"add.exact": 500000, "inverse": 200000, "op.exact": 50000, "concurrent": 100000}}
REQUIRED_HOOKS = ["DateTime.add", "DateTime.subtract"]      # the private _add_timedelta_/_subtract_timedelta hooks add reach, the operators are judged at the boundary
TECHNIQUE = "runtime contracts on add/subtract/timedelta paths with an integer-microsecond instant oracle and tz-database rendering; shards run under rotating process-local zones (TZ) with naive values around those zones' transitions; operator calls repeated while a second thread converts, and four threads shifting values of one zone at once (1 us switch interval), history judged offline"
LEVEL_TEXT = ("every observed call of DateTime.add/subtract/_add_timedelta_/_subtract_timedelta with fixed-length units is "
              "judged against exact integer-us instants and the tz database; held on the executions observed, "
              "which enumerate every transition of every zone")
RULE = ("every offset transition of every zone (tz files + footer rules) probed at T+{-gap,-1s,-1us,0,+1us,+1s,+gap} "
        "as start, plus naive, fixed-offset and random starts; amounts from classes {0, +-1us, +-gap, +-gap+-1us, "
        "jump over 1..3 transitions, mixed-sign component tuples with carries, random up to 1e9 s}; a case is "
        "non-trivial when the moved interval touches a transition; distinct = (zone, transition index, probe, "
        "amount class, call path)")
ASSUMPTIONS = ["CPython datetime/zoneinfo and the tz files are the trusted base",
               "caller-supplied float seconds and |total| > 1e9 s are outside the quantifier and skipped",
               "results outside years 1..9999 are skipped"]
NAMES = ("years", "months", "weeks", "days", "hours", "minutes", "seconds", "microseconds")


def _bind(a, k):
    v = dict(zip(NAMES, a[1:]))
    v.update(k)
    return [v.get(n, 0) for n in NAMES]


def _total(vals):
    if all(type(v) is int for v in vals[4:]):
        return ((vals[4] * 60 + vals[5]) * 60 + vals[6]) * US + vals[7]
    import fractions

    F = fractions.Fraction
    t = ((F(vals[4]) * 60 + F(vals[5])) * 60 + F(vals[6])) * US + F(vals[7])      # exact value of the (binary) float arguments
    return int(t) if t.denominator == 1 else t


def _eligible(x, vals):
    if any(vals[:4]):
        return False
    if not all(type(v) in (int, float) for v in vals[4:]) or type(_total(vals)) is not int:
        return False            # only amounts that are a whole number of microseconds (floats: exact binary fractions)
    k = judge.zkind(x)
    if k[0] == "foreign":
        return False
    if abs(_total(vals)) > 10**9 * US:
        return False
    return k[0] == "naive" or judge.valid_local(x) or getattr(x, "_pvmon_rawgap", False) is True or _in_gap(x)


def _in_gap(x):
    """x carries a pendulum zone and wall fields that the zone skips (a value only the class constructor produces):
    it denotes wall - utcoffset(fold); the result of any fixed-length shift must still be a proper rendering"""
    k = judge.zkind(x)
    if k[0] != "iana":
        return False
    try:
        return tzdb.Z.get(k[1]).classify_wall(wall_us(x))[0] == "gap"
    except Exception:  # noqa: BLE001
        return False


def judge_shift(M, name, x, ret, total, sigp):
    """ret must be x moved by total us on the UTC line (own clock when naive)"""
    k = judge.zkind(x)
    base = wall_us(x) if k[0] == "naive" else inst(x)
    exp = base + total
    bad = []
    if type(ret) is not type(x):
        bad.append("type")
    elif judge.zkind(ret) != k:
        bad.append("zone")
    else:
        bad = judge.render_problems(ret, exp)
    M.check(name, not bad, f"C03/{sigp}:{'+'.join(bad)}", f"{name}: result is not start+amount",
            start=judge.desc(x), amount_us=total, got=judge.desc(ret), expected_instant_us=exp)
    return not bad


def _representable(x, total):
    base = wall_us(x) if x.tzinfo is None else inst(x)
    return MIN_US + 2 * DAY_US < base + total < MAX_US - 2 * DAY_US


def setup(M):
    import pendulum
    from pendulum.datetime import DateTime

    M.pendulum = pendulum

    def add_post(sign, name):
        def post(ret, a, k, snap):
            vals = _bind(a, k)
            if not _eligible(a[0], vals):
                M.count(name + ".skipped")
                return
            judge_shift(M, name + ".exact", a[0], ret, sign * _total(vals), name)
        return post

    def add_exc(sign, name):
        def exc(e, a, k, snap):
            vals = _bind(a, k)
            if not _eligible(a[0], vals):
                return
            tot = sign * _total(vals)
            if _representable(a[0], tot):
                M.check(name + ".exact", False, f"C03/{name}:raised-{type(e).__name__}",
                        f"{name} raised for a representable result", start=judge.desc(a[0]), amount_us=tot, exc=repr(e))
        return exc

    M.contract(DateTime, "add", post=add_post(1, "add"), exc=add_exc(1, "add"), label="DateTime.add")
    M.contract(DateTime, "subtract", post=add_post(-1, "subtract"), exc=add_exc(-1, "subtract"),
               label="DateTime.subtract")

    def td_post(sign, name):
        def post(ret, a, k, snap):
            x, d = a[0], a[1]
            if type(d) is not dt.timedelta or abs(td_us(d)) > 10**9 * US:
                M.count(name + ".skipped")
                return
            kk = judge.zkind(x)
            if kk[0] == "foreign" or (kk[0] != "naive" and not judge.valid_local(x)):
                return
            judge_shift(M, name + ".exact", x, ret, sign * td_us(d), name)
        return post

    M.contract(DateTime, "_add_timedelta_", post=td_post(1, "td_add"), label="DateTime._add_timedelta_")
    M.contract(DateTime, "_subtract_timedelta", post=td_post(-1, "td_sub"), label="DateTime._subtract_timedelta")
    if M.spec.get("suite"):
        return
    n = 0
    for z in gen.shard_zones(M):
        n += tzdb.Z.get(z).selfcheck()
    M.count("oracle_selfcheck_points", n)


# ---------------------------------------------------------------- workload
def _split(r, total):
    """integer (h, m, s, us) with mixed signs and carries summing exactly to total"""
    h = r.randrange(-50, 51)
    m = r.randrange(-5000, 5001)
    s = r.randrange(-10**6, 10**6)
    us = total - ((h * 60 + m) * 60 + s) * US
    return [h, m, s, us]


def _amounts(r, z, i, u):
    t, ob, oa, _ = z.trans[i]
    g = abs(oa - ob) * US
    out = [("zero", 0), ("+1us", 1), ("-1us", -1), ("+gap", g), ("-gap", -g), ("+gap+1", g + 1), ("-gap-1", -g - 1),
           ("+gap-1", g - 1), ("-gap+1", -g + 1)]
    for hop in (1, 2, 3):
        if i + hop < len(z.trans):
            out.append((f"fwd{hop}", z.trans[i + hop][0] * US - u + r.choice((-1, 0, 1, 1800 * US))))
        if i - hop >= 0:
            out.append((f"back{hop}", z.trans[i - hop][0] * US - u + r.choice((-1, 0, 1, -1800 * US))))
    out.append(("rand", r.randrange(-10**9 * US, 10**9 * US)))
    out.append(("rand-small", r.randrange(-200000 * US, 200000 * US)))
    return out


def cases(M):
    r = gen.rng(M)
    thorough = M.tier == "thorough"
    per_probe = 6 if thorough else 2
    if M.config == "ext0" and not thorough:
        zones = gen.hostile()[M.shard::M.nshards]
    else:
        zones = gen.shard_zones(M)
    vias = ["add", "add_split", "sub", "op+", "op-", "radd", "td_add", "add_float"]
    if M.shard % 2 == 0:
        for zn in (("Europe/Paris", "America/New_York", "Australia/Lord_Howe", "Europe/London", "Asia/Tehran", "America/St_Johns")[M.shard // 2 % 6], r.choice(zones) if zones else "Europe/Paris"):
            yield {"k": "threads", "z": zn, "seed": r.randrange(1 << 30), "n": 8000 if thorough else 2500}
    for zn in zones:
        z = tzdb.Z.get(zn)
        for i, (t, ob, oa, _) in enumerate(z.trans):
            for pk, u in gen.probe_instants(t, ob, oa):
                if not gen.ok_instant(u):
                    continue
                ams = _amounts(r, z, i, u)
                for ak, tot in r.sample(ams, min(per_probe, len(ams))):
                    if abs(tot) > 10**9 * US or not gen.ok_instant(u + tot):
                        continue
                    yield {"z": zn, "u": u, "tot": tot, "via": r.choice(vias), "ti": i, "pk": pk, "ak": ak,
                           "sp": r.randrange(1 << 30)}
    # starts built by the class constructor on a wall time inside a gap (either fold), shifted by zero and by small amounts
    for zn in zones[: (len(zones) if thorough else 10)]:
        z = tzdb.Z.get(zn)
        gaps = [(i, t, ob, oa) for i, (t, ob, oa, _) in enumerate(z.trans) if oa > ob and gen.ok_instant(t * US)]
        for i, t, ob, oa in gaps[-(8 if thorough else 3):]:
            for f_ in (0, 1):
                for tot in (0, 0, 1, -1, 1800 * US, -(oa - ob) * US, r.randrange(-10**5, 10**5) * US):
                    yield {"z": zn, "rawgap": (t + ob) * US + r.randrange((oa - ob) * US), "fold": f_, "u": t * US, "tot": tot, "via": r.choice(vias),
                           "ti": i, "pk": "raw-gap-start", "ak": "zero" if tot == 0 else "small", "sp": r.randrange(1 << 30)}
    # naive, fixed-offset and random starts
    nextra = (60000 if thorough else 6000)
    names = gen.all_zones()
    for j in range(nextra):
        kind = ("naive", "fixed", "rand")[j % 3]
        u = gen.random_instant(r) if j % 2 else gen.modern_instant(r)
        tot = r.choice((r.randrange(-10**9 * US, 10**9 * US), r.randrange(-10**7, 10**7), r.randrange(-90000 * US, 90000 * US)))
        if not gen.ok_instant(u + tot):
            continue
        c = {"u": u, "tot": tot, "via": r.choice(vias), "ti": -1, "pk": kind, "ak": "rand", "sp": r.randrange(1 << 30)}
        if kind == "naive":
            c["z"] = None
            ltz = (getattr(M, "spec", None) or {}).get("tz")
            if ltz and ltz != "UTC" and j % 2:
                # "shifted on its own clock": the process-local zone (TZ of this shard) must play no role, so half of the
                # naive starts sit around that zone's transitions, with amounts that cross them or land inside its gaps
                lz = tzdb.Z.get(ltz)
                t, ob, oa, _ = lz.trans[r.randrange(len(lz.trans))]
                c["u"] = (t + r.choice((ob, oa))) * US + r.choice((-3600 * US, -1800 * US, -1, 0, 1, 1800 * US))
                c["tot"] = r.choice((1, -1, 1800 * US, 3600 * US, -3600 * US, 7200 * US, -7200 * US, 86400 * US, r.randrange(-90000 * US, 90000 * US)))
                c["pk"] = "naive-local-transition"
                if not (gen.ok_instant(c["u"]) and gen.ok_instant(c["u"] + c["tot"])):
                    continue
        elif kind == "fixed":
            c["z"] = r.choice((r.randrange(-86399, 86400), r.randrange(-1439, 1440) * 60))
        else:
            c["z"] = r.choice(names)
        yield c


def _start(M, c):
    P = M.pendulum
    from pvmon.common import us_to_fields

    z = c["z"]
    if "rawgap" in c:
        return P.DateTime(*us_to_fields(c["rawgap"]), tzinfo=P.timezone(z), fold=c["fold"])
    if z is None:
        return P.DateTime(*us_to_fields(c["u"]))
    if isinstance(z, int):
        return P.DateTime(*us_to_fields(c["u"] + z * US), tzinfo=P.tz.timezone.FixedTimezone(z))
    return gen.mk(z, c["u"])


_BG = {}


def _concurrent(M, x, d, tot, via):
    """the same operator call repeated while another thread converts unrelated values between zones (in_timezone /
    astimezone, which touch no contracted function) with a very short interpreter switch interval: the result of an
    addition must not depend on what other threads are in the middle of"""
    import sys
    import threading

    P = M.pendulum
    if "t" not in _BG:
        ev = _BG["ev"] = threading.Event()
        _BG["n"] = 0
        v = P.DateTime(2020, 1, 1, 12, tzinfo=P.UTC)
        w = P.DateTime(2021, 3, 28, 1, 30, tzinfo=P.timezone("Europe/Paris"))
        tzs = [P.timezone("Asia/Tokyo"), P.timezone("America/New_York"), dt.timezone.utc]

        def body():
            i = 0
            while True:
                ev.wait()
                v.in_timezone(tzs[i % 2])
                w.astimezone(tzs[2])
                i += 1
                _BG["n"] = i

        _BG["t"] = threading.Thread(target=body, daemon=True)
        _BG["t"].start()
    old = sys.getswitchinterval()
    n0 = _BG["n"]
    sys.setswitchinterval(1e-6)
    _BG["ev"].set()
    try:
        for _ in range(30):
            y = x + d if via == "op+" else d + x if via == "radd" else x - (-d)
            judge_shift(M, "op.exact", x, y, tot, "operator-" + via + ":other-thread-converting")
    finally:
        _BG["ev"].clear()
        sys.setswitchinterval(old)
    M.count("concurrent_conversions_seen", _BG["n"] - n0)


def _threads(M, c):
    """four threads shifting values of ONE named zone (one shared tzinfo object) by fixed-length amounts at the same time:
    every thread records its results, the history is judged afterwards like any other shift"""
    import random

    from pvmon import conc

    P = M.pendulum
    r = random.Random(c["seed"])
    zn = c["z"]
    z = tzdb.Z.get(zn)
    tr = [t for (t, ob, oa, _) in z.trans if gen.ok_instant(t * US, 800)] or [0]
    items = []
    for j in range(c["n"]):
        t = tr[r.randrange(len(tr))] if j % 3 else r.randrange(0, 2 * 10**9)
        u = t * US + r.randrange(-3 * 86400 * US, 3 * 86400 * US)
        tot = r.choice((1, -1, 3600 * US, -3600 * US, 1800 * US, 86400 * US)) * r.randrange(1, 40) + r.randrange(US)
        if not (gen.ok_instant(u, 800) and gen.ok_instant(u + tot, 800)):
            continue
        items.append((gen.mk(zn, u), tot, j % 4))

    def one(it):
        x, tot, how = it
        if how == 0:
            return x.add(microseconds=tot)
        if how == 1:
            return x + dt.timedelta(microseconds=tot)
        if how == 2:
            return x.subtract(microseconds=-tot)
        return dt.timedelta(microseconds=tot) + x

    M.quiet += 1
    try:
        hist, st = conc.run(items, one, nthreads=6, chunk=50, tick=M.progress)
    finally:
        M.quiet -= 1
    for k_, v in st.items():
        M.count("threads." + k_, v)
    for t, i, kind, v in hist:
        x, tot, how = items[i]
        M.current = {"k": "threads-item", "z": zn, "u": inst(x), "tot": tot, "how": how}
        if kind == "exc":
            M.check("concurrent", False, f"C03/concurrent:raised-{type(v).__name__}", "a fixed-length shift raised while other threads shifted values of the same zone",
                    start=judge.desc(x), amount_us=tot, exc=repr(v), thread=t)
        else:
            judge_shift(M, "concurrent", x, v, tot, "concurrent:" + ("add", "op+", "sub", "radd")[how])
    M.cls("threads", zn)
    M.current = c
    M.sample(c)


def run(M, c):
    import random

    if c.get("k") == "threads":
        _threads(M, c)
        return
    x = _start(M, c)
    tot, via = c["tot"], c["via"]
    if "rawgap" in c:
        M.cls("rawgap", c["z"], c["ti"], c["fold"], tot == 0, via)
    elif isinstance(c["z"], str) and gen.crosses(c["z"], c["u"], c["u"] + tot):
        M.cls(c["z"], c["ti"], c["pk"], c["ak"], via)
    elif c["z"] is None or isinstance(c["z"], int):
        M.cls("plain", c["pk"], via, tot % 7)
    M.sample(c)
    r = random.Random(c["sp"])
    try:
        if via == "add":
            y = x.add(microseconds=tot)
            back = y.subtract(microseconds=tot)
        elif via == "add_split":
            h, m, s, us = _split(r, tot)
            y = x.add(hours=h, minutes=m, seconds=s, microseconds=us)
            back = y.subtract(hours=h, minutes=m, seconds=s, microseconds=us)
        elif via == "sub":
            h, m, s, us = _split(r, -tot)
            y = x.subtract(hours=h, minutes=m, seconds=s, microseconds=us)
            back = y.add(hours=h, minutes=m, seconds=s, microseconds=us)
        elif via == "add_float":
            # amounts given as floats (seconds=0.5, hours=1.25: exact binary fractions) together with a microseconds argument
            q = r.choice((4, 2, 8))
            us = tot % (US // q)
            secs = (tot - us) / US                  # a multiple of 1/q second: exact as a float below 2^53/q
            if abs(tot) > 2**40 or float(secs) * US != tot - us:
                y = x.add(microseconds=tot)
                back = y.subtract(microseconds=tot)
            else:
                y = x.add(seconds=float(secs), microseconds=us)
                back = y.subtract(seconds=float(secs), microseconds=us)
        else:
            d = dt.timedelta(microseconds=tot)
            if via == "op+":
                y = x + d
            elif via == "op-":
                y = x - (-d)
            elif via == "radd":
                y = d + x
            else:
                y = x._add_timedelta_(d)
            judge_shift(M, "op.exact", x, y, tot, "operator-" + via)
            if c["sp"] % 16 == 0 and via != "td_add":
                _concurrent(M, x, d, tot, via)
            back = y - d
    except (OverflowError, ValueError) as e:
        M.check("op.exact", False, f"C03/raised-{type(e).__name__}", "exception for a representable result",
                start=judge.desc(x), amount_us=tot, exc=repr(e))
        return
    # inverse: back to the original instant and offset
    ok = type(back) is type(x) and (wall_us(back), off_us(back), back.tzinfo is None) == (
        wall_us(x), off_us(x), x.tzinfo is None)
    if "rawgap" in c:
        # the start's own fields do not exist in its zone: "back to the original instant" is all that can be asked
        ok = type(back) is type(x) and inst(back) == inst(x)
    M.check("inverse", ok, "C03/inverse", "subtract() does not undo add()", start=judge.desc(x), amount_us=tot,
            mid=judge.desc(y), back=judge.desc(back))
