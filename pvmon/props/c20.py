"""C20 — Time-of-day arithmetic wraps modulo 24 hours exactly.

Contracts on Time.add/subtract/add_timedelta/subtract_timedelta/diff/closest/farthest;
operators at the workload boundary.  Oracle: integer microseconds modulo 86 400 000 000.
"""
from __future__ import annotations

import datetime as dt

from pvmon import gen
from pvmon.common import US, td_us

DAY = 86400 * US
PLAN = {
    "quick": {"configs": ["ext1", "ext0"], "nshards": 12, "nshards_ext0": 4, "timeout": 900},
    "thorough": {"configs": ["ext1", "ext0"], "nshards": 16, "timeout": 3400, "suite": ["ext1"]},
}
DECIDING = ["add", "subtract", "add_timedelta", "subtract_timedelta", "diff", "closest", "farthest", "inverse", "operators", "concurrent"]
FLOORS = {"quick": {"add": 100000, "subtract": 50000, "add_timedelta": 20000, "subtract_timedelta": 20000, "diff": 100000,
                    "closest": 20000, "farthest": 20000, "inverse": 50000, "operators": 50000, "concurrent": 20000},
          "thorough": {"add": 10**6, "subtract": 500000, "add_timedelta": 200000, "subtract_timedelta": 200000, "diff": 10**6,
                       "closest": 200000, "farthest": 200000, "inverse": 500000, "operators": 500000}}
REQUIRED_HOOKS = ["Time.add", "Time.subtract", "Time.add_timedelta", "Time.subtract_timedelta", "Time.diff", "Time.closest",
                  "Time.farthest"]
TECHNIQUE = "runtime contracts on Time.add/subtract/timedelta paths/diff/closest/farthest against an integer-microsecond modulo-24h oracle; Duration/Interval operands; shared objects used by six threads at once (1 us switch interval), every outcome compared with the single-threaded, contract-judged one"
LEVEL_TEXT = ("every observed Time arithmetic call is judged against integer microseconds modulo 86 400 000 000; boundary times, "
              "multi-day mixed-sign amounts and all pairs in a window for diff with non-zero microseconds; held on what was observed")
RULE = ("times: 00:00:00.000000, 23:59:59.999999, +-1us around each hour, random; amounts: mixed-sign (h, m, s, us) spanning several "
        "days, zero, exact multiples of 24 h; timedeltas with days == 0 (must shift) and days != 0 (must be rejected); pairs for "
        "diff/closest/farthest with sub-second distances; distinct = (time class, amount sign pattern, wraps?, op); non-trivial = "
        "wraps past midnight or mixed signs or sub-second distance")
ASSUMPTIONS = ["integer arithmetic is the trusted base",
               "'a day component' is read as timedelta.days != 0 in the normalised representation (so negative sub-day timedeltas count as having one)",
               "ties are excluded for closest/farthest"]


def tus(t):
    return ((t.hour * 60 + t.minute) * 60 + t.second) * US + t.microsecond


def setup(M):
    import pendulum
    from pendulum.time import Time

    M.pendulum = pendulum
    M.Time = Time
    N = ("hours", "minutes", "seconds", "microseconds")

    def amt(a, k):
        v = dict(zip(N, a[1:]))
        v.update(k)
        vals = [v.get(n, 0) for n in N]
        if not all(type(x) is int for x in vals):
            return None
        return ((vals[0] * 60 + vals[1]) * 60 + vals[2]) * US + vals[3]

    def mk_add(sign, name):
        def post(ret, a, k, snap):
            t = amt(a, k)
            if t is None:
                return
            exp = (tus(a[0]) + sign * t) % DAY
            M.check(name, type(ret) is Time and tus(ret) == exp, f"C20/{name}", f"Time.{name} is not modulo-24h exact",
                    start=str(a[0]), amount_us=sign * t, got=str(ret), expected_us=exp)

        def exc(e, a, k, snap):
            t = amt(a, k)
            if t is not None and abs(t) < 10**9 * US:
                M.check(name, False, f"C20/{name}:raised-{type(e).__name__}", f"Time.{name} raised", start=str(a[0]), amount_us=t,
                        exc=repr(e))
        return post, exc

    for sign, name in ((1, "add"), (-1, "subtract")):
        p, e = mk_add(sign, name)
        M.contract(Time, name, post=p, exc=e, label=f"Time.{name}")

    def mk_td(sign, name):
        def post(ret, a, k, snap):
            d = a[1]
            # a negative timedelta shorter than a day is stored as days=-1 plus a positive remainder: "a day component"
            # is certain only from one whole day on; in between either a TypeError or the exact result is accepted
            if abs(td_us(d)) >= DAY:
                M.check(name, False, f"C20/{name}:day-component-accepted", "timedelta with a day component accepted",
                        start=str(a[0]), delta=repr(d), got=str(ret))
                return
            exp = (tus(a[0]) + sign * td_us(d)) % DAY
            M.check(name, type(ret) is Time and tus(ret) == exp, f"C20/{name}", f"Time.{name} wrong", start=str(a[0]),
                    delta=repr(d), got=str(ret), expected_us=exp)

        def exc(e, a, k, snap):
            d = a[1]
            days = dt.timedelta.days.__get__(d)
            M.check(name, days != 0 and isinstance(e, TypeError), f"C20/{name}:raised-{type(e).__name__}",   # days == -1 for every negative one
                    "raised for a timedelta without a day component (or wrong exception type)", start=str(a[0]), delta=repr(d),
                    exc=repr(e))
        return post, exc

    for sign, name in ((1, "add_timedelta"), (-1, "subtract_timedelta")):
        p, e = mk_td(sign, name)
        M.contract(Time, name, post=p, exc=e, label=f"Time.{name}")

    def diff_post(ret, a, k, snap):
        t1 = a[0]
        t2 = a[1] if len(a) > 1 else k.get("dt")
        ab = a[2] if len(a) > 2 else k.get("abs", True)
        if t2 is None:
            return
        e = tus(t2) - tus(t1)
        if ab:
            e = abs(e)
        sub = ":subsecond" if (tus(t2) - tus(t1)) % US else ""
        got = td_us(ret)
        if ab:
            # AbsoluteDuration keeps a signed native triple; its public value is total_seconds()/the components
            got = round(ret.total_seconds() * US)
            if [ret.hours, ret.minutes, ret.remaining_seconds, ret.microseconds] != [e // US // 3600, e // US // 60 % 60, e // US % 60, e % US]:
                got = -1
        M.check("diff", got == e, "C20/diff" + sub, "Time.diff is not the signed difference to the microsecond",
                t1=str(t1), t2=str(t2), abs=ab, got_us=got, expected_us=e)

    M.contract(Time, "diff", post=diff_post, label="Time.diff")

    def mk_cf(name, far):
        def post(ret, a, k, snap):
            t, x, y = a[0], a[1], a[2]
            dx, dy = abs(tus(x) - tus(t)), abs(tus(y) - tus(t))
            if dx == dy:
                return
            want = x if (dx > dy) == far else y
            sub = ":subsecond" if dx // US == dy // US else ""
            M.check(name, type(ret) is Time and tus(ret) == tus(want), f"C20/{name}{sub}", f"{name} does not choose by distance",
                    t=str(t), a=str(x), b=str(y), got=str(ret))
        return post

    M.contract(Time, "closest", post=mk_cf("closest", False), label="Time.closest")
    M.contract(Time, "farthest", post=mk_cf("farthest", True), label="Time.farthest")


def _times(r):
    base = [0, DAY - 1, 1, DAY - US, US]
    for h in range(24):
        base += [h * 3600 * US - 1, h * 3600 * US, h * 3600 * US + 1]
    return [x % DAY for x in base]


def cases(M):
    r = gen.rng(M)
    n = (1200000 if M.tier == "thorough" else 120000) // M.nshards
    edge = _times(r)
    if M.shard % 2 == 0:
        yield {"k": "threads", "seed": r.randrange(1 << 30), "n": 6000 if M.tier == "thorough" else 2000}
    for j in range(n):
        t = r.choice(edge) if j % 3 == 0 else r.randrange(DAY)
        sg = lambda: r.choice((1, -1))  # noqa: E731
        amt = [sg() * r.choice((0, r.randrange(100))), sg() * r.choice((0, r.randrange(10000))),
               sg() * r.choice((0, r.randrange(400000))), sg() * r.choice((0, r.randrange(10**7), r.randrange(3 * DAY)))]
        if j % 11 == 0:
            amt = [24 * r.randrange(-3, 4), 0, 0, r.choice((0, 1, -1))]
        t2 = r.choice((r.randrange(DAY), (t + r.randrange(-2 * US, 2 * US)) % DAY, r.choice(edge)))
        t3 = r.choice((r.randrange(DAY), (t + r.randrange(-2 * US, 2 * US)) % DAY, (2 * t - t2) % DAY))
        yield {"t": t, "amt": amt, "t2": t2, "t3": t3, "td": r.choice((r.randrange(DAY), r.randrange(-DAY, 3 * DAY), r.randrange(US), -r.randrange(1, 3 * US), -r.randrange(1, DAY)))}


def _mk(M, us):
    s, u = divmod(us, US)
    return M.Time(s // 3600, s // 60 % 60, s % 60, u)


def _threads(M, c):
    """Times (naive and aware, shared objects) shifted and diffed by six threads at once"""
    import random

    from pvmon import conc

    r = random.Random(c["seed"])
    T = M.Time
    items = []
    pool = [7 * 60 * US, 46 * 60 * US, 1, DAY - 1, 3600 * US + 250000]      # a few amounts used over and over (a memo per amount gets hits)
    for i in range(c["n"]):
        t1, t2 = r.randrange(DAY), r.randrange(DAY)
        tz = None if i % 3 else dt.timezone(dt.timedelta(minutes=r.randrange(-12, 13) * 60 + r.choice((0, 30))))
        a = T(t1 // US // 3600, t1 // US // 60 % 60, t1 // US % 60, t1 % US, tzinfo=tz)
        b = T(t2 // US // 3600, t2 // US // 60 % 60, t2 // US % 60, t2 % US, tzinfo=tz)
        items.append((a, b, pool[r.randrange(len(pool))] if i % 4 else r.randrange(DAY)))

    def one(it):
        a, b, amt = it
        d = dt.timedelta(microseconds=amt)
        return (tus(a.add(microseconds=amt)), tus(a.subtract(microseconds=amt)), tus(a + d), tus(a - d), td_us(a.diff(b, False)), td_us(a.diff(b)), td_us(b - a),
                tus(a.closest(b, a.add(microseconds=amt))), tus(a.farthest(b, a.add(microseconds=amt))))

    conc.differential(M, items, one, "C20/concurrent", show=lambda it: f"{it[0]} {it[1]} +{it[2]}us")
    M.cls("threads")
    M.sample(c)


def run(M, c):
    if c.get("k") == "threads":
        return _threads(M, c)
    T = M.Time
    t = _mk(M, c["t"])
    h, m, s, us = c["amt"]
    tot = ((h * 60 + m) * 60 + s) * US + us
    signs = tuple((v > 0) - (v < 0) for v in c["amt"])
    wraps = not (0 <= c["t"] + tot < DAY)
    if wraps or len(set(signs) - {0}) > 1:
        M.cls("arith", c["t"] in (0, DAY - 1), signs, wraps, abs(tot) > DAY)
    M.sample(c)
    if c["t"] % 3 == 0:
        # the documented positional order (hours, minutes, seconds, microseconds)
        y = t.add(h, m, s, us)                                                 # contract
        back = y.subtract(h, m, s, us)                                         # contract
        y2 = t.add(hours=h, minutes=m, seconds=s, microseconds=us)
        M.check("inverse", tus(y2) == tus(y), "C20/positional-differs-from-keyword", "add(h, m, s, us) differs from the keyword form", start=str(t),
                amount=c["amt"], positional=str(y), keyword=str(y2))
    else:
        y = t.add(hours=h, minutes=m, seconds=s, microseconds=us)              # contract
        back = y.subtract(hours=h, minutes=m, seconds=s, microseconds=us)      # contract
    M.check("inverse", type(back) is T and tus(back) == c["t"], "C20/inverse", "subtract() does not undo add()", start=str(t),
            amount=c["amt"], mid=str(y), back=str(back))
    # timedelta operators
    d = dt.timedelta(microseconds=c["td"])
    for name, fn, sign in (("+", lambda: t + d, 1), ("-", lambda: t - d, -1)):
        try:
            r_ = fn()
            ok = abs(c["td"]) < DAY and type(r_) is T and tus(r_) == (c["t"] + sign * c["td"]) % DAY
            got = str(r_)
        except TypeError as e:
            ok = d.days != 0
            got = repr(e)
        M.check("operators", ok, f"C20/operator{name}" + (":day-component" if d.days else ""), "Time +/- timedelta wrong",
                t=str(t), delta_us=c["td"], got=got)
    # a zone-aware Time (region zone) shifted by weeks or months worth of hours: still plain modulo-24h clock arithmetic
    if c["t"] % 5 == 0:
        zname = ("America/Santiago", "Europe/Paris", "Australia/Lord_Howe")[c["t"] // 5 % 3]
        ta = T(t.hour, t.minute, t.second, t.microsecond, tzinfo=M.pendulum.timezone(zname))
        big = (c["td"] % 400 - 200) * 24 + h % 24
        try:
            ya = ta.add(hours=big, microseconds=us)
            yb = ya.subtract(hours=big, microseconds=us) if isinstance(ya, T) else None
            exp_a = (c["t"] + big * 3600 * US + us) % DAY
            M.check("operators", type(ya) is T and tus(ya) == exp_a and yb is not None and tus(yb) == c["t"], "C20/aware-time:large-amount",
                    "a zone-aware Time shifted by a large amount is not modulo-24h exact (or subtract does not undo add)", t=str(ta), zone=zname,
                    hours=big, us=us, got=str(ya), back=str(yb))
        except Exception as ex:  # noqa: BLE001
            M.check("operators", False, f"C20/aware-time:raised-{type(ex).__name__}", "Time.add on a zone-aware Time raised", t=str(ta), hours=big)
    # the operand being a pendulum Duration / Interval (timedelta subclasses): below one day -> exact (a negative one may
    # also be rejected, see above), from one whole day on (weeks, days, an interval of a week) -> TypeError
    P = M.pendulum
    ds = c["td"] % (6 * 3600 * US)
    wk = (c["td"] // 7) % 3
    opers = [("dur-subday", P.duration(microseconds=ds)), ("dur-neg-subday", P.duration(microseconds=-ds)),
             ("dur-weeks", P.duration(weeks=wk + 1, microseconds=ds)), ("dur-days", P.duration(days=wk + 1, hours=c["td"] % 5)),
             ("dur-implied-days", P.duration(hours=24 * 7 * (wk + 1) + c["td"] % 5)),
             ("interval-week", P.DateTime(2021, 3, 1, tzinfo=P.UTC).add(days=7 * (wk + 1), microseconds=ds) - P.DateTime(2021, 3, 1, tzinfo=P.UTC)),
             ("interval-subday", P.DateTime(2021, 3, 1, tzinfo=P.UTC).add(microseconds=ds) - P.DateTime(2021, 3, 1, tzinfo=P.UTC))]
    for oname, d_ in opers:
        tot = td_us(d_)
        for name, fn, sign in (("+", lambda: t + d_, 1), ("-", lambda: t - d_, -1)):
            try:
                r_ = fn()
                ok = abs(tot) < DAY and type(r_) is T and tus(r_) == (c["t"] + sign * tot) % DAY
                got = str(r_)
            except TypeError as e:
                ok = abs(tot) >= DAY or tot < 0
                got = repr(e)
            M.check("operators", ok, f"C20/operator{name}:{oname}", "Time +/- Duration/Interval wrong (below a day: exact; with a day component: TypeError)",
                    t=str(t), operand=repr(d_), got=got)
    # two zone-aware Times that denote the same instant in different fixed offsets (equal for the standard library) but are
    # different times of day: diff() is about the times of day
    if c["t"] % 7 == 0:
        offm = (c["td"] % 23 - 11) * 60 + (30 if c["td"] % 2 else 0)
        if offm:
            ta1 = T(t.hour, t.minute, t.second, t.microsecond, tzinfo=dt.timezone.utc)
            w2 = (c["t"] + offm * 60 * US) % DAY
            if 0 <= c["t"] + offm * 60 * US < DAY:
                ta2 = T(w2 // US // 3600, w2 // US // 60 % 60, w2 // US % 60, w2 % US, tzinfo=dt.timezone(dt.timedelta(minutes=offm)))
                for ab in (True, False):
                    try:
                        dd = ta1.diff(ta2, ab)                 # contract judges against the fields
                    except Exception as ex:  # noqa: BLE001
                        M.check("operators", False, f"C20/aware-diff:raised-{type(ex).__name__}", "Time.diff between aware Times raised", t1=str(ta1), t2=str(ta2))
                # the two siblings (equal and hash-equal, other times of day) shifted one after the other, in both orders:
                # each moves on its OWN clock (anything memoised per Time value would hand one the other's result)
                amt = c["td"] % DAY
                pair = [ta1, ta2] if c["td"] % 2 else [ta2, ta1]
                for tx in pair:
                    wx = (tx.hour * 3600 + tx.minute * 60 + tx.second) * US + tx.microsecond
                    try:
                        got_ = (tus(tx.add(microseconds=amt)), tus(tx.subtract(microseconds=amt)), tus(tx + dt.timedelta(microseconds=amt)),
                                tus(tx - dt.timedelta(microseconds=amt)))
                    except Exception as ex:  # noqa: BLE001
                        M.check("operators", False, f"C20/aware-sibling-shift:raised-{type(ex).__name__}", "shifting an aware Time raised", t=str(tx), amount_us=amt)
                        continue
                    exp_ = ((wx + amt) % DAY, (wx - amt) % DAY, (wx + amt) % DAY, (wx - amt) % DAY)    # (whether the tzinfo is kept is not in the statement)
                    M.check("operators", got_ == exp_, "C20/aware-sibling-shift", "an aware Time shifted after an equal (same instant, other offset) Time does not move on its own clock",
                            t=str(tx), amount_us=amt, got=list(got_[:4]), expected=list(exp_[:4]), order=[str(p_) for p_ in pair])
    # diff / t2 - t1 / closest / farthest (contracts judge diff, closest, farthest)
    t2, t3 = _mk(M, c["t2"]), _mk(M, c["t3"])
    if (c["t2"] - c["t"]) % US:
        M.cls("diff-subsecond", (c["t2"] > c["t"]), abs(c["t2"] - c["t"]) < US)
    t.diff(t2, False)
    t.diff(t2)
    r1 = t2 - t
    sub = ":subsecond" if (c["t2"] - c["t"]) % US else ""
    M.check("operators", td_us(r1) == c["t2"] - c["t"], "C20/time-minus-time" + sub, "t2 - t1 is not the signed difference", t1=str(t),
            t2=str(t2), got_us=td_us(r1))
    nat = dt.time(t2.hour, t2.minute, t2.second, t2.microsecond)
    r2 = nat - t
    M.check("operators", td_us(r2) == c["t2"] - c["t"], "C20/native-minus-time" + sub, "native time - Time wrong", t1=str(t), t2=str(t2),
            got_us=td_us(r2))
    t.closest(t2, t3)
    t.farthest(t2, t3)
