"""C19 — Interval.range() steps from the start without drift and stays inside.

Interval.range is replaced by a checking generator: every element is compared, as it is
produced, with start.add(unit = k*n) (subtract for an inverted non-absolute interval),
monotonicity and containment are checked element by element, and at exhaustion the
next expected element must lie beyond the end.  Contracts on __iter__ (delegation) and
__contains__.
"""
from __future__ import annotations

import datetime as dt
import itertools

from pvmon import gen
from pvmon.common import US, fields, inst, wall_us
from pvmon.oracle import cal, tzdb

PLAN = {
    "quick": {"configs": ["ext1", "ext0"], "nshards": 12, "nshards_ext0": 4, "timeout": 900},
    "thorough": {"configs": ["ext1", "ext0"], "nshards": 16, "timeout": 3400, "suite": ["ext1"]},
}
DECIDING = ["range.element", "range.end", "contains", "range.bound", "concurrent"]
FLOORS = {"quick": {"range.element": 300000, "range.end": 5000, "contains": 20000, "range.bound": 5000, "concurrent": 10000},
          "thorough": {"range.element": 3 * 10**6, "range.end": 50000, "contains": 200000, "range.bound": 50000}}
REQUIRED_HOOKS = ["Interval.range", "Interval.__contains__"]
TECHNIQUE = "online checking generator wrapped around Interval.range (sequence oracle element by element), contracts on __contains__/__iter__; elements judged against an independent calendar model; containment probes written in other zones; shared objects used by six threads at once (1 us switch interval), every outcome compared with the single-threaded, contract-judged one"
LEVEL_TEXT = ("every element yielded by Interval.range during the workloads is compared online with the start shifted by k*n units, "
              "checked for strict monotonicity and containment, and exhaustion is checked against end-reachability; intervals are "
              "forward/inverted/absolute over DateTime (ranges crossing gaps and overlaps) and Date; held on what was observed")
RULE = ("intervals forward/inverted/absolute x DateTime in zones (starts near transitions, on days 29-31) and Date x 8 units x steps "
        "1..12 x 0..10^4 steps x end exactly reachable or not; iteration capped with islice at bound+2 (over-run = violation); "
        "distinct = (type, unit, step, mode, start day class, crosses a transition?, reachable?); non-trivial = month/year stepping "
        "from day 29-31, or the range crosses a transition, or inverted/absolute")
ASSUMPTIONS = ["the k-th expected element is computed with the library's own add()/subtract() from the start (that is what the property "
               "states); add() itself is decided by C03/C04", "amount <= 0 is outside the quantifier and never generated"]

UNITS = ("years", "months", "weeks", "days", "hours", "minutes", "seconds", "microseconds")


def pos(x):
    """position on the comparison line: instant for aware datetimes, wall for naive/dates"""
    if isinstance(x, dt.datetime) and x.tzinfo is not None and x.utcoffset() is not None:
        return inst(x)
    return wall_us(x)


def same(a, b):
    if type(a) is not type(b):
        return False
    if isinstance(a, dt.datetime):
        return fields(a) == fields(b) and a.utcoffset() == b.utcoffset()
    return fields(a) == fields(b)


def setup(M):
    import pendulum
    from pendulum.interval import Interval

    M.pendulum = pendulum
    orig = Interval.range

    def checked_range(self, unit, amount=1):
        it = orig(self, unit, amount)
        if M.quiet or unit not in UNITS or type(amount) is not int or amount <= 0:
            yield from it
            return
        start, end = self.start, self.end
        inverted = (not self._absolute) and self.invert
        meth = "subtract" if inverted else "add"
        sgn = -1 if inverted else 1
        k = 0
        prev = None
        case = M.current
        while True:
            try:
                x = next(it)
            except StopIteration:
                break
            except Exception as e:  # noqa: BLE001 - "the iteration is finite": it ends, it does not blow up half-way
                M.current = case
                M.check("range.element", False, f"C19/range-raised-{type(e).__name__}", "range() raised in the middle of the iteration",
                        start=_d(start), end=_d(end), unit=unit, amount=amount, k=k, exc=repr(e)[:120])
                return
            M.quiet += 1
            try:
                try:
                    exp = getattr(start, meth)(**{unit: k * amount})
                except (OverflowError, ValueError):
                    exp = None
                bad = []
                if exp is None or not same(x, exp):
                    bad.append("element")
                elif unit not in UNITS[:4] and k:
                    # fixed-length units: the k-th value is k*n units of elapsed time after the start (own clock when naive)
                    step = {"hours": 3600 * US, "minutes": 60 * US, "seconds": US, "microseconds": 1}[unit] * sgn * k * amount
                    if isinstance(start, dt.datetime):
                        okm = (wall_us(x) == wall_us(start) + step) if start.tzinfo is None else (inst(x) == inst(start) + step)
                        if not okm:
                            bad.append("element-model")
                elif unit in UNITS[:4] and k:
                    # independent calendar model of "start shifted by k*n units" (the library's own add() is not the judge here)
                    bad += _model_problems(start, unit, sgn * k * amount, x)
                if prev is not None and not (sgn * pos(x) > sgn * prev):
                    if not bad and sgn * pos(x) == sgn * prev:
                        # the oracle sequence itself repeats an instant: two wall times normalised out of one gap
                        # (e.g. the skipped day of Pacific/Kiritimati); not a range() matter
                        M.count("equal_instants_by_gap_normalisation")
                    else:
                        bad.append("monotone")
                lo, hi = sorted((pos(start), pos(end)))
                if not lo <= pos(x) <= hi:
                    bad.append("outside")
                fold = _fold_pair(x, end) or _fold_pair(start, x)
                M.check("range.element", not bad, "C19/" + "+".join(bad) + (":same-tzinfo-fold" if fold else ""),
                        "range element differs from start shifted by k*n", start=_d(start), end=_d(end), unit=unit, amount=amount,
                        k=k, got=_d(x), expected=_d(exp), inverted=inverted)
                prev = pos(x)
            finally:
                M.quiet -= 1
            k += 1
            yield x
        # exhausted: the next expected element must be beyond the end (or not representable)
        M.quiet += 1
        try:
            try:
                nxt = getattr(start, meth)(**{unit: k * amount})
            except (OverflowError, ValueError):
                nxt = None
            ok = nxt is None or sgn * pos(nxt) > sgn * pos(end)
            if k == 0:
                ok = sgn * pos(start) > sgn * pos(end)
            fold = nxt is not None and (_fold_pair(nxt, end) or _fold_pair(start, end))
            M.current = case
            M.check("range.end", ok, "C19/stopped-early" + (":same-tzinfo-fold" if fold else ""),
                    "iteration stopped although the next element is not beyond the end", start=_d(start), end=_d(end), unit=unit,
                    amount=amount, yielded=k, next=_d(nxt))
        finally:
            M.quiet -= 1

    checked_range.__pvmon_wrapped__ = orig
    Interval.range = checked_range
    M.attached.append("Interval.range")

    def contains_post(ret, a, k, snap):
        iv, x = a[0], a[1]
        try:
            exp = pos(iv.start) <= pos(x) <= pos(iv.end)
        except Exception:  # noqa: BLE001
            return
        fold = _fold_pair(iv.start, x) or _fold_pair(x, iv.end)
        M.check("contains", bool(ret) == exp, "C19/contains" + (":same-tzinfo-fold" if fold else ""),
                "x in interval differs from start <= x <= end", start=_d(iv.start), end=_d(iv.end), x=_d(x), got=ret)

    M.contract(Interval, "__contains__", post=contains_post, label="Interval.__contains__")


OTHER_ZONES = ["America/New_York", "Europe/Paris", "Asia/Kathmandu", "Australia/Lord_Howe", "Pacific/Apia", "Europe/London"]


def _model_problems(start, unit, n, got):
    from pvmon.props import c04

    vals = [0] * 8
    vals[c04.NAMES.index(unit)] = n
    if not isinstance(start, dt.datetime):
        e = c04.date_model(start, vals)
        return ["element-model"] if e is not None and fields(got) != e else []
    m = c04.model(start, vals)
    if m is None:
        return []
    if m[0] == "naive":
        return ["element-model"] if wall_us(got) != m[2] else []
    if m[0] == "value":
        return ["element-model"] if (wall_us(got) != m[2] or inst(got) != m[1]) else []
    return []


def _fold_pair(a, b):
    """same tzinfo object and wall-clock order differs from instant order"""
    if not (isinstance(a, dt.datetime) and isinstance(b, dt.datetime)) or a.tzinfo is None or a.tzinfo is not b.tzinfo:
        return False
    wa, wb, ia, ib = wall_us(a), wall_us(b), inst(a), inst(b)
    return ((wa > wb) - (wa < wb)) != ((ia > ib) - (ia < ib))


def _d(x):
    if x is None:
        return None
    if isinstance(x, dt.datetime):
        return f"{x.isoformat()} fold={x.fold}"
    return repr(x)


BIG_STEPS = {"microseconds": (100, 999, 1000, 250000, 999999, 1000001, 1500000, 60 * 10**6 + 1, 86400 * 10**6 + 1),
             "seconds": (59, 61, 3599, 3601, 86399, 86401), "minutes": (59, 61, 1439, 1441), "hours": (23, 25, 49)}


def cases(M):
    r = gen.rng(M)
    n = (200000 if M.tier == "thorough" else 12000) // M.nshards
    names = gen.all_zones()
    host = gen.hostile(names)
    if M.shard % 2 == 0:
        yield {"k": "threads", "seed": r.randrange(1 << 30), "n": 5000 if M.tier == "thorough" else 1600}
    for j in range(n):
        isdate = j % 4 == 0
        unit = r.choice(UNITS[:4] if isdate else UNITS)
        step = r.randrange(1, 13)
        steps = r.choice((0, 1, 2, 5, 20, 50, 300)) if j % 200 else r.choice((3000, 10000))
        if unit == "years":
            steps = min(steps, 50)
        if j % 6 == 1 and unit in BIG_STEPS:
            # step sizes whose multiples carry into the next larger units (k*n microseconds beyond a second, seconds
            # beyond a minute / an hour / a day ...), in both directions
            step = r.choice(BIG_STEPS[unit])
            steps = min(steps, 300)
        century = j % 10 == 7 and not isdate
        if century:
            # a handful of steps covering centuries to millennia with a sub-day unit (elapsed-time counts of such spans
            # no longer fit a float exactly), the end 1 us short of / beyond / exactly on a step point
            unit = r.choice(("hours", "minutes", "seconds"))
            step = {"hours": 10**6, "minutes": 6 * 10**7, "seconds": 36 * 10**8}[unit] // r.choice((1, 2, 5))
            steps = r.choice((3, 6, 11, 40, 77))
        zn = r.choice(host) if j % 3 else r.choice(names)
        z = tzdb.Z.get(zn)
        near = None
        if z.trans and j % 2 == 0 and not isdate and not century:
            ti = r.randrange(len(z.trans))
            t = z.trans[ti][0]
            u = (t - r.choice((0, 1, 3600, 86400, 86400 * 3, 86400 * 31))) * US + r.choice((0, 0, 999999))
            near = ti
        else:
            y, mo = r.randrange(1990, 2035), r.randrange(1, 13)
            if century:
                y = r.choice((60, 400, 1200, 1400, 1990))
            if j % 10 == 3:
                y = r.choice((1200, 1400, 2600, 3000, 5000, 9900, 60))      # far from the epoch (float timestamps lose the microseconds there)
            d = min(r.choice((1, 15, 28, 29, 30, 31)), cal.dim(y, mo))
            u = wall_us(dt.datetime(y, mo, d, r.randrange(24), r.randrange(60), r.randrange(60), r.choice((0, 999999))))
        edge = None
        if j % 10 == 8 and steps:
            # both ends of the representable range: the last element lies within a step or two of year 9999 (forward) or
            # year 1 (inverted), so the value after it may not be representable - the iteration has to stop, not raise
            from pvmon.common import MAX_US, MIN_US

            nomc = {"years": 366 * 86400, "months": 31 * 86400, "weeks": 7 * 86400, "days": 86400, "hours": 3600, "minutes": 60,
                    "seconds": 1, "microseconds": 0}[unit] * US or 1
            steps = min(steps, 50)
            edge = ("hi", "lo")[j // 10 % 2]
            slack = r.randrange(step * nomc + 1) * r.choice((0, 1, 1, 2))
            u = (MAX_US - steps * step * nomc - slack) if edge == "hi" else (MIN_US + slack)
            u = min(max(u, MIN_US), MAX_US)
            zn, near = "UTC", None
        elif not gen.ok_instant(u, 8000):
            continue
        yield {"date": isdate, "unit": unit, "step": step, "steps": steps, "z": zn, "u": u, "near": near, "edge": edge,
               "extra": r.choice((None, None, ("seconds", r.randrange(1, 3)), ("hours", r.randrange(1, 3)), ("days", r.randrange(1, 3)),
                                  ("microseconds", -1), ("microseconds", 1), ("microseconds", -1))),
               "mode": r.choice(("fwd", "inv", "abs-inv", "abs-fwd")) if edge is None else {"hi": r.choice(("fwd", "abs-inv", "abs-fwd")), "lo": "inv"}[edge],
               "naive": j % 7 == 0 or (edge is not None and j % 3 != 0)}


def _threads(M, c):
    """fresh Interval objects SHARED by six threads whose first iteration happens at the same time (forward, inverted,
    absolute; range() and direct iteration; containment): every thread must see the single-threaded sequence"""
    import random

    from pvmon import conc

    P = M.pendulum
    r = random.Random(c["seed"])
    items = []
    for i in range(c["n"]):
        isdate = i % 3 == 0
        u = gen.modern_instant(r)
        from pvmon.common import us_to_fields

        a = P.Date(*us_to_fields(u)[:3]) if isdate else gen.mk(("UTC", "Europe/Paris", "America/New_York")[i % 3], u)
        unit = r.choice(UNITS[:4] if isdate else UNITS[:7])
        n = r.randrange(1, 5)
        b = a.add(**{unit: n * r.randrange(0, 9)})
        mode = i % 4
        iv = P.interval(a, b) if mode == 0 else P.interval(b, a) if mode == 1 else P.interval(b, a, absolute=True) if mode == 2 else (a - b)
        items.append((iv, unit, n))

    def one(it):
        iv, unit, n = it
        got = [str(x) for x in itertools.islice(iv.range(unit, n), 60)]
        return (tuple(got), tuple(str(x) for x in itertools.islice(iter(iv), 40)), iv.start in iv, iv.end in iv)

    conc.differential(M, items, one, "C19/concurrent", show=lambda it: f"{it[0].start} -> {it[0].end} abs={it[0]._absolute} {it[1]} x{it[2]}")
    M.cls("threads")
    M.sample(c)


def run(M, c):
    P = M.pendulum
    if c.get("k") == "threads":
        return _threads(M, c)
    unit, n, steps = c["unit"], c["step"], c["steps"]
    if c["date"]:
        from pvmon.common import us_to_fields

        a = P.Date(*us_to_fields(c["u"])[:3])
    elif c["naive"]:
        from pvmon.common import us_to_fields

        a = P.DateTime(*us_to_fields(c["u"]))
    else:
        a = gen.mk(c["z"], c["u"])
    try:
        b = a.add(**{unit: n * steps})
        if c["extra"] and (not c["date"] or c["extra"][0] == "days"):
            b = b.add(**{c["extra"][0]: c["extra"][1]})
    except (OverflowError, ValueError):
        return
    if pos(b) < pos(a):
        return
    mode = c["mode"]
    if mode == "fwd":
        iv = P.interval(a, b)
    elif mode == "inv":
        iv = P.interval(b, a)
    elif mode == "abs-inv":
        iv = P.interval(b, a, absolute=True)
    else:
        iv = P.interval(a, b, absolute=True)
    crosses = (not c["date"]) and (not c["naive"]) and gen.crosses(c["z"], pos(a), pos(b))
    d0 = a.day
    if c.get("edge"):
        M.cls("edge", c["edge"], c["date"], unit, mode)
        M.count("range_edge_cases")
    if (unit in ("years", "months") and d0 >= 29) or crosses or mode != "fwd":
        M.cls(c["date"], unit, n, mode, d0 >= 29, crosses, c["extra"] is None)
    M.sample(c)
    # shared bound: number of steps that can fit, +2; an over-run is itself the violation
    NOM = {"years": 365 * 86400, "months": 28 * 86400, "weeks": 7 * 86400, "days": 86400, "hours": 3600, "minutes": 60,
           "seconds": 1, "microseconds": 1e-6}[unit] * US
    span = abs(pos(b) - pos(a))
    bound = int(span // (n * NOM) + 1) * 2 + 8
    if bound > 12000:
        return
    if c["u"] % 3 == 0:
        # an iteration of the same object abandoned after its first value(s), and a second one left suspended: what the
        # next complete iteration yields must not depend on them
        M.quiet += 1
        try:
            it0 = iv.range(unit, n)
            next(it0, None)
            del it0
            it1 = iter(iv.range(unit, n))
            next(it1, None), next(it1, None)
            if unit == "days":
                next(iter(iv), None)
        finally:
            M.quiet -= 1
    got = list(itertools.islice(iv.range(unit, n), bound + 2))      # checking generator judges every element
    foldish = _fold_pair(iv.start, iv.end) or any(_fold_pair(x, iv.end) or _fold_pair(iv.start, x) for x in got[-70:] + got[:3])
    if not foldish:
        M.quiet += 1
        try:
            nxt = getattr(iv.start, "subtract" if mode == "inv" else "add")(**{unit: n * len(got)})
            foldish = _fold_pair(nxt, iv.end)
        except (OverflowError, ValueError):
            pass
        finally:
            M.quiet -= 1
    ftag = ":same-tzinfo-fold" if foldish else ""
    M.check("range.bound", len(got) <= bound, "C19/overrun" + ftag, "range yields more elements than can fit between start and end",
            start=_d(iv.start), end=_d(iv.end), unit=unit, amount=n, yielded=len(got), bound=bound)
    # end reachability
    M.quiet += 1
    try:
        try:
            kth = getattr(iv.start, "subtract" if mode == "inv" else "add")(**{unit: n * steps})
        except (OverflowError, ValueError):
            kth = None
    finally:
        M.quiet -= 1
    reach = kth is not None and same(kth, iv.end)
    if got:
        last_is_end = same(got[-1], iv.end) if mode != "inv" else same(got[-1], iv.end)
        if reach and len(got) <= bound:
            # with month/year stepping from days 29-31 the end built by add() is by construction start + steps*n
            M.check("range.end", last_is_end, "C19/end-not-yielded" + ftag, "the end is reachable but was not yielded", start=_d(iv.start),
                    end=_d(iv.end), unit=unit, amount=n, last=_d(got[-1]))
    # containment of yielded values and of a few outsiders
    for x in got[:3] + got[-2:]:
        x in iv                                         # contract judges
    try:
        (iv.end.add(**{unit: 1}) if mode != "inv" else iv.end.subtract(**{unit: 1})) in iv
        (iv.start.subtract(**{unit: 1}) if mode != "inv" else iv.start.add(**{unit: 1})) in iv
    except (OverflowError, ValueError):
        pass
    if not c["date"] and not c["naive"]:
        # probes expressed in OTHER zones (UTC, a fixed offset, another named zone) around both bounds: the answer
        # is a matter of instants only, whatever zone x is written in
        from pvmon.common import us_to_fields

        oz = OTHER_ZONES[(c["u"] // 7) % len(OTHER_ZONES)]
        lo_, hi_ = sorted((pos(iv.start), pos(iv.end)))
        for base in (lo_, hi_):
            for delta in (-3600 * US - 1, -1800 * US, -1, 0, 1, 900 * US, 3600 * US + 1):
                u = base + delta
                if not gen.ok_instant(u, 400):
                    continue
                for mk in (lambda: gen.mk("UTC", u), lambda: P.DateTime(*us_to_fields(u + 7200 * US), tzinfo=P.FixedTimezone(7200)),
                           lambda: gen.mk(oz, u)):
                    x = mk()
                    x in iv                                      # contract judges
                M.cls("probe-other-zone", oz, delta)
    if unit == "days" and steps <= 400:
        # direct iteration is by days
        it = list(itertools.islice(iter(iv), steps * n + 5))
        ref = list(itertools.islice(iv.range("days"), steps * n + 5))
        M.check("range.element", len(it) == len(ref) and all(same(p, q) for p, q in zip(it, ref)), "C19/iter-not-by-days",
                "iter(interval) is not range('days')", start=_d(iv.start), end=_d(iv.end))
