"""C09 — Duration normalisation is consistent with timedelta and with itself.

Class-invariant contract on Duration.__new__ / AbsoluteDuration.__new__ (fires for every
Duration created anywhere: arithmetic results, parse results, -d, abs ...) + contracts on
total_*/in_*.  Oracle: exact integer arithmetic on the constructor arguments.
"""
from __future__ import annotations

import datetime as dt

from pvmon import gen
from pvmon.common import US, td_us

PLAN = {
    "quick": {"configs": ["ext1", "ext0"], "nshards": 12, "nshards_ext0": 4, "timeout": 900},
    "thorough": {"configs": ["ext1", "ext0"], "nshards": 16, "timeout": 3400, "suite": ["ext1"]},
}
DECIDING = ["new.invariant", "rebuild", "totals"]
FLOORS = {"quick": {"new.invariant": 300000, "rebuild": 100000, "totals": 100000},
          "thorough": {"new.invariant": 5 * 10**6, "rebuild": 2 * 10**6, "totals": 2 * 10**6}}
REQUIRED_HOOKS = ["Duration.__new__"]
TECHNIQUE = "class-invariant contract on Duration.__new__ (every Duration created anywhere) against exact integer arithmetic on the constructor arguments; workloads include years/months cancelled by opposite days"
LEVEL_TEXT = ("every Duration constructed (directly, by operators, by negation, by the rebuild) is checked against the native "
              "timedelta of the same arguments and against the canonical signed breakdown computed with integers; inputs cover "
              "mixed-sign tuples, cancellations and sub-second negatives inside the float-exact range; held on what was observed")
RULE = ("integer 9-tuples (years, months, weeks, days, hours, minutes, seconds, milliseconds, microseconds) of mixed sign, each "
        "|component| up to 1e6 (larger for whole-second totals), zero and sign-cancelling combinations, negative totals with a "
        "sub-second part; |total| < 2^33 s (where float seconds still resolve microseconds) when a sub-second part is present; distinct = (sign pattern of the 9 arguments, "
        "cancels to zero?, negative total with sub-second part?, magnitude bucket); non-trivial = at least two non-zero "
        "arguments of different sign or a carry across units")
ASSUMPTIONS = ["trusted base: CPython datetime.timedelta and integer arithmetic",
               "totals outside the float-exact range named by the quantifier are not generated; float arguments are not judged"]

KW = ("years", "months", "weeks", "days", "hours", "minutes", "seconds", "milliseconds", "microseconds")
_POS = ("days", "seconds", "microseconds", "milliseconds", "minutes", "hours", "weeks", "years", "months")


def _args(a, k):
    v = dict(zip(_POS, a[1:]))
    v.update(k)
    return {n: v.get(n, 0) for n in KW}


def rest_us(v):
    """exact us of the part without years and months"""
    return (((v["weeks"] * 7 + v["days"]) * 24 + v["hours"]) * 60 + v["minutes"]) * 60 * US + v["seconds"] * US + \
        v["milliseconds"] * 1000 + v["microseconds"]


def breakdown(us):
    """canonical signed breakdown of an integer us amount: weeks, rdays, hours, minutes, rsec, us"""
    s = -1 if us < 0 else 1
    a = abs(us)
    sec, u = divmod(a, US)
    days, sod = divmod(sec, 86400)
    return [s * (days // 7), s * (days % 7), s * (sod // 3600), s * (sod // 60 % 60), s * (sod % 60), s * u]


def setup(M):
    import pendulum
    from pendulum.duration import AbsoluteDuration, Duration

    M.pendulum = pendulum
    M.Duration = Duration

    def new_post(ret, a, k, snap):
        cls = a[0]
        if cls is not Duration:
            return
        v = _args(a, k)
        if not all(type(x) is int for x in v.values()):
            M.count("new.non_integer_args")
            return
        rest = rest_us(v)
        full = rest + (365 * v["years"] + 30 * v["months"]) * 86400 * US
        if rest % US and max(abs(rest), abs(full)) >= 2**33 * US or abs(rest) > 10**9 * 86400 * US:
            M.count("new.outside_float_exact_range")
            return
        bad = []
        try:
            nat = dt.timedelta(days=v["days"] + 365 * v["years"] + 30 * v["months"], seconds=v["seconds"],
                               microseconds=v["microseconds"], milliseconds=v["milliseconds"], minutes=v["minutes"],
                               hours=v["hours"], weeks=v["weeks"])
        except OverflowError:
            return
        if td_us(ret) != td_us(nat):
            bad.append("native")
        if (ret.years, ret.months) != (v["years"], v["months"]):
            bad.append("years-months")
        got = [ret.weeks, ret.remaining_days, ret.hours, ret.minutes, ret.remaining_seconds, ret.microseconds]
        if got != breakdown(rest):
            bad.append("breakdown")
        M.check("new.invariant", not bad, "C09/" + "+".join(bad), "Duration normalisation inconsistent", args=v, got=got,
                expected=breakdown(rest), native_us=td_us(ret), want_us=td_us(nat))

    def new_exc(e, a, k, snap):
        if a[0] is not Duration:
            return
        v = _args(a, k)
        if not all(type(x) is int for x in v.values()):
            return
        try:
            dt.timedelta(days=v["days"] + 365 * v["years"] + 30 * v["months"], seconds=v["seconds"], microseconds=v["microseconds"],
                         milliseconds=v["milliseconds"], minutes=v["minutes"], hours=v["hours"], weeks=v["weeks"])
        except OverflowError:
            return          # the value itself is outside timedelta's range: raising is right
        M.check("new.native", False, f"C09/raised-{type(e).__name__}:total-representable",
                "Duration() raised although the native timedelta of the same arguments exists", args=v, exc=repr(e)[:100])

    M.contract(Duration, "__new__", post=new_post, exc=new_exc, label="Duration.__new__")

    def abs_post(ret, a, k, snap):
        v = _args(a, k)
        if not all(type(x) is int for x in v.values()):
            return
        rest = rest_us(v)
        if rest % US and abs(rest) >= 2**53:
            return
        got = [ret.weeks, ret.remaining_days, ret.hours, ret.minutes, ret.remaining_seconds, ret.microseconds]
        exp = breakdown(abs(rest))
        ok = got == exp and (ret.years, ret.months) == (abs(v["years"]), abs(v["months"]))
        M.check("new.invariant", ok, "C09/absolute-breakdown", "AbsoluteDuration components are not the magnitude", args=v,
                got=got, expected=exp)

    M.contract(AbsoluteDuration, "__new__", post=abs_post, label="AbsoluteDuration.__new__")


def cases(M):
    r = gen.rng(M)
    n = (1500000 if M.tier == "thorough" else 130000) // M.nshards * (1 if M.config == "ext1" else 1)
    for j in range(n):
        mode = j % 8
        big = r.choice((10, 100, 10**3, 10**6))

        def z(lim):
            return r.choice((0, 0, r.randrange(-lim, lim + 1)))
        v = {"years": z(50), "months": z(200), "weeks": z(big), "days": z(big), "hours": z(big), "minutes": z(big),
             "seconds": z(big), "milliseconds": z(big), "microseconds": z(big * 10)}
        if mode == 1:      # sign-cancelling
            v["days"], v["hours"] = r.randrange(1, 100), 0
            v["hours"] = -24 * v["days"] + r.choice((0, 0, 1, -1))
            v["weeks"] = v["minutes"] = v["seconds"] = 0
            v["milliseconds"] = r.choice((0, 1, -1)); v["microseconds"] = -1000 * v["milliseconds"] + r.choice((0, 1, -1))
        elif mode == 2:    # negative total with sub-second part
            v = {n: 0 for n in KW}
            v["seconds"] = -r.randrange(0, 10**5); v["microseconds"] = r.choice((-1, 1)) * r.randrange(1, 10**6)
            v["days"] = z(3)
        elif mode == 3:    # large whole-second totals up to 1e9 days
            v = {n: 0 for n in KW}
            v["days"] = r.randrange(-10**9 + 10**7, 10**9 - 10**7); v["seconds"] = r.randrange(-10**5, 10**5)
            v["years"], v["months"] = z(1000), z(1000)
        elif mode == 4:    # carries exactly at unit boundaries
            v = {n: 0 for n in KW}
            s = r.choice((1, -1))
            v["microseconds"] = s * r.choice((999999, 10**6, 10**6 + 1, 59999999, 6 * 10**7, 86399999999, 864 * 10**8))
            v["seconds"] = r.choice((0, s * 59, -s * 60, s * 86399))
            v["days"] = r.choice((0, s * 6, -s * 7, s * 7))
        elif mode == 0 and j % 64 == 0:
            # years and months that cancel as days (6 years = 73 months of 30 days): both are still reported as given
            k_ = r.choice((1, -1, 2, -3))
            v = {n: 0 for n in KW} | {"years": 6 * k_, "months": -73 * k_, "days": r.choice((0, 3, -3)), "hours": r.choice((0, -5, 5)),
                                      "microseconds": r.choice((0, 1))}
        elif mode == 7 and j % 8 == 7:
            # two Durations of the same timedelta value, split differently between years/months and days, one after the other
            # (equal and hash-equal objects: anything memoised per value must not hand one the other's breakdown)
            y, mo = r.randrange(-3, 4), r.randrange(-14, 15)
            d0, h0 = r.randrange(-400, 400), r.choice((-5, 5, -23, 7))
            us0 = r.choice((0, 1, -1, 250000))
            yield {n: 0 for n in KW} | {"days": d0 + 365 * y + 30 * mo, "hours": h0, "microseconds": us0}
            v = {n: 0 for n in KW} | {"years": y, "months": mo, "days": d0, "hours": h0, "microseconds": us0}
        elif mode == 6 and j % 16 == 6:
            # a day part beyond timedelta's own limit, pulled back into range by years/months of the opposite sign
            v = {n: 0 for n in KW}
            sgn = r.choice((1, -1))
            v["years"] = -sgn * r.randrange(1, 10**6)
            v["days"] = sgn * (999999999 + r.randrange(1, 300 * abs(v["years"])))
            v["hours"] = r.choice((0, sgn * 5))
            v["seconds"] = r.choice((0, sgn * 7))
            if j % 32 == 6:
                # the same with years / months / days whose own magnitude passes 2^31 (millions of years, 10^8 months,
                # billions of days) while the timedelta of the whole stays representable
                y_ = r.choice((0, r.randrange(-10**7, 10**7)))
                mo_ = r.choice((0, r.randrange(-10**8, 10**8), r.randrange(-3 * 10**9, 3 * 10**9)))
                tot_ = r.randrange(-999999000, 999999000)
                v["years"], v["months"] = y_, mo_
                v["days"] = tot_ - (365 * y_ + 30 * mo_)
                if r.random() < 0.3:
                    v["weeks"], v["days"] = v["days"] // 7, v["days"] % 7
        elif mode == 5 and j % 16 == 5:
            # years/months cancelled to within a day by days/weeks of the opposite sign: the whole value as a timedelta is
            # tiny (native days 0 or -1) while the part excluding years and months is not
            v = {n: 0 for n in KW}
            y, mo = r.randrange(-3, 4), r.randrange(-14, 15)
            v["years"], v["months"] = y, mo
            tot = -(365 * y + 30 * mo)
            if r.random() < 0.5:
                v["weeks"], v["days"] = divmod(tot, 7) if tot >= 0 else (-((-tot) // 7), -((-tot) % 7))
            else:
                v["days"] = tot
            v["hours"] = r.choice((0, 5, -5, 23, -23))
            v["microseconds"] = r.choice((0, 1, -1, 999999, -500000))
        yield v


def run(M, v):
    D = M.Duration
    nz = [n for n in KW if v[n]]
    signs = tuple((v[n] > 0) - (v[n] < 0) for n in KW)
    rest = rest_us(v)
    if len(set(signs) - {0}) > 1 or len(nz) >= 3:
        M.cls(signs, rest == 0, rest < 0 and rest % US != 0, len(str(abs(rest))))
    M.sample(v)
    try:
        d = D(**v)                    # contract judges
    except OverflowError:
        M.count("overflow")
        return
    full = rest + (365 * v["years"] + 30 * v["months"]) * 86400 * US
    if rest % US and max(abs(rest), abs(full)) >= 2**33 * US:
        return
    # rebuild from own components
    c = dict(years=d.years, months=d.months, weeks=d.weeks, days=d.remaining_days, hours=d.hours, minutes=d.minutes,
             seconds=d.remaining_seconds, microseconds=d.microseconds)
    d2 = D(**c)
    c2 = dict(years=d2.years, months=d2.months, weeks=d2.weeks, days=d2.remaining_days, hours=d2.hours, minutes=d2.minutes,
              seconds=d2.remaining_seconds, microseconds=d2.microseconds)
    M.check("rebuild", td_us(d2) == td_us(d) and c2 == c and d2 == d, "C09/rebuild", "rebuilding from own components differs",
            args=v, comps=c, comps2=c2)
    # totals consistent with total_seconds()
    ts = d.total_seconds()
    ok = (d.total_minutes() == ts / 60 and d.total_hours() == ts / 3600 and d.total_days() == ts / 86400 and
          d.total_weeks() == ts / 86400 / 7 and d.in_seconds() == int(ts) and d.in_minutes() == int(ts / 60) and
          d.in_hours() == int(ts / 3600) and d.in_days() == int(ts / 86400) and d.in_weeks() == int(ts / 86400 / 7))
    exact = ts == td_us(d) / US
    M.check("totals", ok and exact, "C09/totals", "total_*/in_* inconsistent with total_seconds()", args=v, ts=ts)
    # a few derived constructions so that the invariant also sees operator results
    -d
    abs(d)
