"""C10 — Duration arithmetic agrees with timedelta arithmetic.

Differential monitor against datetime.timedelta for every operator x operand kind x side
(operators are slots; the monitor sits at the workload boundary), plus a contract on
_divide_and_round against exact rational round-half-even.
"""
from __future__ import annotations

import datetime as dt
import fractions

from pvmon import gen
from pvmon.common import US, td_us

PLAN = {
    "quick": {"configs": ["ext1", "ext0"], "nshards": 12, "nshards_ext0": 4, "timeout": 900},
    "thorough": {"configs": ["ext1", "ext0"], "nshards": 16, "timeout": 3400, "suite": ["ext1"]},
}
DECIDING = ["unary", "addsub", "scale", "divmod", "compare", "yearsmonths", "divide_and_round", "interval_ops", "concurrent"]
FLOORS = {"quick": {"unary": 50000, "addsub": 200000, "scale": 200000, "divmod": 200000, "compare": 100000,
                    "yearsmonths": 20000, "interval_ops": 5000, "concurrent": 20000},
          "thorough": {"unary": 500000, "addsub": 2 * 10**6, "scale": 2 * 10**6, "divmod": 2 * 10**6, "compare": 10**6,
                       "yearsmonths": 200000, "interval_ops": 50000, "concurrent": 100000}}
REQUIRED_HOOKS = []      # the private _divide_and_round hook adds an exact-rational check; the operators are judged at the boundary
TECHNIQUE = "differential runtime monitor against datetime.timedelta for every Duration operator x operand kind x side; contract on _divide_and_round against exact rational round-half-even; Interval (signed/absolute) operands on both sides; fold-sibling intervals, and operands that equal an earlier years/months operand as timedeltas, visited in one process (history workloads); freshly built Durations shared by four threads under a 1 us switch interval, history judged offline"
LEVEL_TEXT = ("every operator result is compared with the same operator on native timedeltas (exact integer microseconds) and its "
              "type is checked; operands include both signs, plain timedeltas on either side, ints, floats with long binary "
              "expansions and constructed round-half-even ties; held on what was observed")
RULE = ("pairs (Duration, Duration|timedelta|int|float) from magnitude classes {us, s, days, 1e5 days} x signs x ties (odd us / 2, "
        "x0.5, x2.5) x Interval operands; distinct = (operator, operand kind, side, sign pair, magnitude classes, tie?); "
        "non-trivial = all")
ASSUMPTIONS = ["trusted base: CPython datetime.timedelta", "zero divisors excluded; results overflowing timedelta skipped"]


def setup(M):
    import pendulum
    import sys

    PD = sys.modules["pendulum.duration"]

    M.pendulum = pendulum
    M.D = PD.Duration

    def dr_post(ret, a, k, snap):
        x, y = a[0], a[1]
        if y == 0 or isinstance(x, float) or isinstance(y, float):
            return
        q = fractions.Fraction(x, y)
        f = q.numerator // q.denominator
        rem = q - f
        exp = f + (1 if rem > fractions.Fraction(1, 2) or (rem == fractions.Fraction(1, 2) and f % 2 == 1) else 0)
        M.check("divide_and_round", ret == exp and type(ret) is int, "C10/divide_and_round", "not round-half-even", a=x, b=y,
                got=ret, expected=exp)

    M.contract(PD, "_divide_and_round", post=dr_post, label="duration._divide_and_round")


MAGS = (("us", 10**3), ("s", 10**8), ("d", 10**12), ("big", 10**16))


def _val(r):
    name, lim = r.choice(MAGS)
    v = r.randrange(-lim, lim + 1)
    if r.random() < 0.15:
        v = v // US * US
    return name, v


def cases(M):
    r = gen.rng(M)
    n = (2000000 if M.tier == "thorough" else 200000) // M.nshards
    # intervals that compare equal (same tzinfo object, same wall clock) but differ in length: the two passes of one
    # repeated wall time as an endpoint - visited one after the other in one process, in both orders
    from pvmon.oracle import tzdb

    for zn in gen.hostile()[M.shard::M.nshards] + ["Europe/Paris"]:
        z = tzdb.Z.get(zn)
        ov = [(t, ob, oa) for (t, ob, oa, _) in z.trans if oa < ob and 1950 < 1970 + t // 31556952 < 2037]
        for t, ob, oa in ov[-6:]:
            yield {"k": "siblings", "z": zn, "w": (t + oa) * US + r.randrange((ob - oa) * US), "first": r.randrange(2), "k_": r.choice((2, 3, -5)),
                   "a": r.randrange(1, 10**10)}
    if M.shard % 2 == 0:
        for _ in range(3 if M.tier == "thorough" else 1):
            yield {"k": "threads", "seed": r.randrange(1 << 30), "n": 4000 if M.tier == "thorough" else 2400}
    for j in range(n):
        (ma, a), (mb, b) = _val(r), _val(r)
        k = r.choice((r.randrange(-1000, 1001), r.randrange(-10**6, 10**6), 2, -2, 3, 7))
        f = r.choice((0.5, 2.5, -0.5, 1.5, 0.1, 1 / 3, r.uniform(-100, 100), r.uniform(-1e-3, 1e-3), 1e6 + 0.1, float(r.randrange(-50, 50))))
        if j % 7 == 0:
            a = a | 1          # odd us so that /2 and *0.5 are exact ties
        yield {"a": a, "b": b, "k": k, "f": f, "ma": ma, "mb": mb, "ym": [r.randrange(-20, 21), r.randrange(-40, 41)] if j % 5 == 0 else None}


def _d(M, us):
    return M.D(microseconds=us)


def _try(fn):
    try:
        return ("ok", fn())
    except OverflowError:
        return ("overflow", None)
    except ZeroDivisionError:
        return ("zerodiv", None)
    except Exception as e:  # noqa: BLE001
        return ("exc", e)


def _cmp(M, mon, opname, got, exp, want_type, **ctx):
    """got/exp are _try results"""
    if exp[0] != "ok":
        return
    if got[0] == "overflow":
        M.count("overflow")
        return
    if got[0] != "ok":
        M.check(mon, False, f"C10/{opname}:raised-{type(got[1]).__name__ if got[0] == 'exc' else got[0]}",
                f"{opname} raised but timedelta does not", exc=repr(got[1]), **ctx)
        return
    g, e = got[1], exp[1]

    def val(x):
        if isinstance(x, dt.timedelta):
            return td_us(x)
        if isinstance(x, tuple):
            return tuple(val(y) for y in x)
        return x
    bad = []
    if val(g) != val(e):
        bad.append("value")
    if want_type is not None:
        gt = g[1] if isinstance(g, tuple) else g
        if want_type == "Duration" and not isinstance(gt, M.D):
            bad.append("type")
        if want_type == "number" and (type(g) is not type(e)):
            bad.append("type")
        if isinstance(g, tuple) and type(g[0]) is not type(e[0]):
            bad.append("type")
    big = ""
    mags = [abs(ctx.get("a_us", 0)), abs(ctx.get("b_us", 0))] + [abs(x) for x in (val(e) if isinstance(val(e), tuple) else (val(e),))
                                                                    if isinstance(x, int) and isinstance(e if not isinstance(e, tuple) else e[1], dt.timedelta)]
    if bad == ["value"] and max(mags) >= 2**33 * US:
        big = ":>=2^33s"      # mechanism: float seconds no longer resolve microseconds (operand or exact result >= 2^33 s)
    M.check(mon, not bad, f"C10/{opname}:{'+'.join(bad)}{big}", f"{opname} differs from timedelta", got=val(g), expected=val(e),
            got_type=type(g).__name__, **ctx)


def _siblings(M, c):
    from pvmon.common import us_to_fields

    P = M.pendulum
    tz = P.timezone(c["z"])
    F = us_to_fields(c["w"])
    e = [P.DateTime(*F, tzinfo=tz, fold=0), P.DateTime(*F, tzinfo=tz, fold=1)]
    s0 = P.DateTime(*us_to_fields(c["w"] - 20 * 3600 * US), tzinfo=tz, fold=1)
    order = [c["first"], 1 - c["first"]]
    ta = dt.timedelta(microseconds=c["a"])
    da = _d(M, c["a"])
    k = c["k_"]
    for f_ in order:
        iv = e[f_] - s0
        tl = dt.timedelta(microseconds=td_us(iv))          # its own length as a plain timedelta
        ctx = {"a_us": c["a"], "b_us": td_us(iv), "zone": c["z"], "fold": f_, "position": order.index(f_)}
        M.cls("siblings", c["z"], f_, order.index(f_))
        _cmp(M, "interval_ops", "sibling-add", _try(lambda: iv + da), _try(lambda: tl + ta), "Duration", **ctx)
        _cmp(M, "interval_ops", "sibling-radd", _try(lambda: ta + iv), _try(lambda: ta + tl), None, **ctx)
        _cmp(M, "interval_ops", "sibling-sub", _try(lambda: iv - ta), _try(lambda: tl - ta), "Duration", **ctx)
        _cmp(M, "interval_ops", "sibling-mul", _try(lambda: iv * k), _try(lambda: tl * k), "Duration", k=k, **ctx)
        _cmp(M, "interval_ops", "sibling-floordiv", _try(lambda: iv // ta), _try(lambda: tl // ta), "number", **ctx)
        _cmp(M, "interval_ops", "sibling-mod", _try(lambda: iv % ta), _try(lambda: tl % ta), "Duration", **ctx)
        M.check("interval_ops", (iv == tl) is True and (iv.as_duration() == tl), "C10/sibling-eq", "an interval does not equal the timedelta of its own length",
                **ctx)


def _threads(M, c):
    """freshly built Durations SHARED by several threads whose first arithmetic use happens at the same time (anything an
    operator memoises on the instance, or in a module-level table, is filled by racing threads); every thread records its
    results, the history is judged afterwards against the same operators on native timedeltas"""
    import random

    from pvmon import conc

    r = random.Random(c["seed"])
    D = M.D
    items = []
    for _ in range(c["n"]):
        a = r.randrange(-10**12, 10**12) | 1
        b = r.randrange(1, 10**10)
        items.append((D(microseconds=a), dt.timedelta(microseconds=b), D(microseconds=b), a, b))

    def ops(d, tb, db):
        return (td_us(d * 3), d // tb, td_us(d % tb), d / tb, td_us(d // 7), td_us(d / 7), d // db, td_us(d % db), tb // d, td_us(-d), td_us(abs(d)),
                td_us(d + tb), td_us(tb - d), td_us(d * 0.5), d == dt.timedelta(microseconds=td_us(d)), hash(d))

    names = ("mul-int", "floordiv-td", "mod-td", "truediv-td", "floordiv-int", "truediv-int", "floordiv-D", "mod-D", "rfloordiv-td", "neg", "abs",
             "add-td", "rsub-td", "mul-float", "eq-native", "hash")
    M.quiet += 1
    try:
        hist, st = conc.run(items, lambda it: ops(it[0], it[1], it[2]), nthreads=6, chunk=40, tick=M.progress)
    finally:
        M.quiet -= 1
    for k_, v in st.items():
        M.count("concurrent." + k_, v)
    for t, i, kind, v in hist:
        a, b = items[i][3], items[i][4]
        ta, tb = dt.timedelta(microseconds=a), dt.timedelta(microseconds=b)
        if kind == "exc":
            M.check("concurrent", False, f"C10/concurrent:raised-{type(v).__name__}", "an operator raised while other threads used the same Duration",
                    a_us=a, b_us=b, exc=repr(v), thread=t)
            continue
        exp = ops(ta, tb, tb)
        bad = [n for n, g, e in zip(names, v, exp) if g != e]
        M.check("concurrent", not bad, "C10/concurrent:" + "+".join(bad[:3]), "operator results differ from timedelta when several threads use the same "
                "Duration at the same time", a_us=a, b_us=b, got=list(v), expected=list(exp), thread=t)
    M.cls("threads", st["threads"])
    M.sample(c)


def run(M, c):
    if c.get("k") == "siblings":
        _siblings(M, c)
        return
    if c.get("k") == "threads":
        _threads(M, c)
        return
    D = M.D
    a, b, k, f = c["a"], c["b"], c["k"], c["f"]
    M.sample(c)
    da, db = _d(M, a), _d(M, b)
    if td_us(da) != a or td_us(db) != b:
        M.count("construction_not_exact")   # C09's business; judge on what the objects are
        a, b = td_us(da), td_us(db)
    ta, tb = dt.timedelta(microseconds=a), dt.timedelta(microseconds=b)
    sg = ((a > 0) - (a < 0), (b > 0) - (b < 0))
    ctx = {"a_us": a, "b_us": b}
    # unary
    M.cls("unary", c["ma"], sg[0])
    _cmp(M, "unary", "neg", _try(lambda: -da), _try(lambda: -ta), "Duration", **ctx)
    _cmp(M, "unary", "abs", _try(lambda: abs(da)), _try(lambda: abs(ta)), None, **ctx)
    # + - with Duration / timedelta on either side
    for kind, ob, tb_ in (("D", db, tb), ("td", tb, tb)):
        M.cls("addsub", kind, c["ma"], c["mb"], sg)
        _cmp(M, "addsub", f"add-{kind}", _try(lambda: da + ob), _try(lambda: ta + tb_), "Duration", other=kind, **ctx)
        _cmp(M, "addsub", f"sub-{kind}", _try(lambda: da - ob), _try(lambda: ta - tb_), "Duration", other=kind, **ctx)
        _cmp(M, "addsub", f"radd-{kind}", _try(lambda: ob + da), _try(lambda: tb_ + ta), "Duration", other=kind, **ctx)
        _cmp(M, "addsub", f"rsub-{kind}", _try(lambda: ob - da), _try(lambda: tb_ - ta), None, other=kind, **ctx)
        if b != 0:
            M.cls("divmod", kind, c["ma"], c["mb"], sg)
            _cmp(M, "divmod", f"floordiv-{kind}", _try(lambda: da // ob), _try(lambda: ta // tb_), "number", other=kind, **ctx)
            _cmp(M, "divmod", f"truediv-{kind}", _try(lambda: da / ob), _try(lambda: ta / tb_), "number", other=kind, **ctx)
            _cmp(M, "divmod", f"mod-{kind}", _try(lambda: da % ob), _try(lambda: ta % tb_), "Duration", other=kind, **ctx)
            _cmp(M, "divmod", f"divmod-{kind}", _try(lambda: divmod(da, ob)), _try(lambda: divmod(ta, tb_)), "Duration", other=kind, **ctx)
        if a != 0 and kind == "td":
            # plain timedelta on the left, Duration on the right
            _cmp(M, "divmod", "rfloordiv-td", _try(lambda: tb // da), _try(lambda: tb // ta), "number", **ctx)
            _cmp(M, "divmod", "rtruediv-td", _try(lambda: tb / da), _try(lambda: tb / ta), "number", **ctx)
            _cmp(M, "divmod", "rmod-td", _try(lambda: tb % da), _try(lambda: tb % ta), None, **ctx)
        # comparisons and hash
        M.cls("compare", kind, sg, a == b)
        got = (da == ob, da != ob, da < ob, da <= ob, da > ob, da >= ob, ob == da, ob < da)
        exp = (ta == tb_, ta != tb_, ta < tb_, ta <= tb_, ta > tb_, ta >= tb_, tb_ == ta, tb_ < ta)
        M.check("compare", got == exp, f"C10/compare-{kind}", "comparison differs from timedelta", got=got, expected=exp, **ctx)
    M.check("compare", hash(da) == hash(ta) and da == ta and ta == da, "C10/hash-eq-native", "hash/== differ from the equal timedelta",
            **ctx)
    # scaling
    M.cls("scale", c["ma"], sg[0], k > 0, abs(k) > 1000)
    _cmp(M, "scale", "mul-int", _try(lambda: da * k), _try(lambda: ta * k), "Duration", k=k, **ctx)
    _cmp(M, "scale", "rmul-int", _try(lambda: k * da), _try(lambda: k * ta), "Duration", k=k, **ctx)
    _cmp(M, "scale", "mul-float", _try(lambda: da * f), _try(lambda: ta * f), "Duration", f=f, **ctx)
    _cmp(M, "scale", "rmul-float", _try(lambda: f * da), _try(lambda: f * ta), "Duration", f=f, **ctx)
    if k:
        _cmp(M, "scale", "floordiv-int", _try(lambda: da // k), _try(lambda: ta // k), "Duration", k=k, **ctx)
        _cmp(M, "scale", "truediv-int", _try(lambda: da / k), _try(lambda: ta / k), "Duration", k=k, **ctx)
    if f:
        _cmp(M, "scale", "truediv-float", _try(lambda: da / f), _try(lambda: ta / f), "Duration", f=f, **ctx)
    # years / months: negation and integer scaling act component-wise
    if c["ym"]:
        y, mo = c["ym"]
        try:
            d = D(years=y, months=mo, microseconds=a)
            n = -d
            m = d * k
        except OverflowError:
            M.count("overflow")
            return
        # ==, != and hash follow the timedelta value, however it is split between years/months and days
        try:
            twin = D(microseconds=td_us(d))
            twin2 = D(years=y - 1, months=mo + 2, days=305, microseconds=a) if abs(y) < 15 else twin
            for w_ in (twin, twin2):
                if td_us(w_) != td_us(d):
                    continue
                ok_eq = (d == w_) is True and (w_ == d) is True and (d != w_) is False and hash(d) == hash(w_) and len({d, w_}) == 1 \
                    and (d == dt.timedelta(microseconds=td_us(d))) is True
                M.check("compare", ok_eq, "C10/eq-hash:years-months-split", "two Durations of the same timedelta value with another years/months split are not equal/hash-equal",
                        d=repr(d), other=repr(w_))
        except OverflowError:
            pass
        # history: an operand carrying years/months is used first (not in the statement's domain, but ordinary use), then
        # operands WITHOUT years/months that are equal and hash-equal to it as timedeltas: anything memoised per operand
        # value would be served to them
        if td_us(d) != 0 and b != 0 and abs(td_us(d)) < 2**33 * US and abs(b) < 2**33 * US:
            for fn in (lambda: db // d, lambda: db % d, lambda: db / d, lambda: divmod(db, d), lambda: db + d, lambda: db - d, lambda: d // db,
                       lambda: d % db, lambda: tb // d, lambda: abs(d), lambda: -d):
                _try(fn)
            tw_td = dt.timedelta(microseconds=td_us(d))
            try:
                tw_d = D(microseconds=td_us(d))
            except OverflowError:
                tw_d = None
            for kind, ob in (("td", tw_td), ("D", tw_d)):
                if ob is None or td_us(ob) != td_us(d):
                    continue
                hctx = dict(ctx, b_us=td_us(d), after=repr(d))
                _cmp(M, "divmod", f"floordiv-{kind}:after-equal-years-months-operand", _try(lambda: db // ob), _try(lambda: tb // tw_td), "number", **hctx)
                _cmp(M, "divmod", f"truediv-{kind}:after-equal-years-months-operand", _try(lambda: db / ob), _try(lambda: tb / tw_td), "number", **hctx)
                _cmp(M, "divmod", f"mod-{kind}:after-equal-years-months-operand", _try(lambda: db % ob), _try(lambda: tb % tw_td), "Duration", **hctx)
                _cmp(M, "divmod", f"divmod-{kind}:after-equal-years-months-operand", _try(lambda: divmod(db, ob)), _try(lambda: divmod(tb, tw_td)), "Duration", **hctx)
                _cmp(M, "addsub", f"add-{kind}:after-equal-years-months-operand", _try(lambda: db + ob), _try(lambda: tb + tw_td), "Duration", **hctx)
                _cmp(M, "addsub", f"sub-{kind}:after-equal-years-months-operand", _try(lambda: db - ob), _try(lambda: tb - tw_td), "Duration", **hctx)
                _cmp(M, "divmod", f"rfloordiv-{kind}:after-equal-years-months-operand", _try(lambda: ob // db), _try(lambda: tw_td // tb), "number", **hctx)
                if kind == "D":
                    _cmp(M, "unary", "neg:after-equal-years-months-operand", _try(lambda: -ob), _try(lambda: -tw_td), "Duration", **hctx)
                    _cmp(M, "unary", "abs:after-equal-years-months-operand", _try(lambda: abs(ob)), _try(lambda: abs(tw_td)), None, **hctx)
            M.count("history_equal_years_months_operand")
        rest = td_us(d) - (365 * y + 30 * mo) * 86400 * US
        ok = (n.years, n.months) == (-y, -mo) and td_us(n) == -td_us(d) and (m.years, m.months) == (y * k, mo * k)
        okm = td_us(m) == rest * k + (365 * y * k + 30 * mo * k) * 86400 * US
        M.cls("ym", (y > 0) - (y < 0), (mo > 0) - (mo < 0), sg[0])
        bigym = ":>=2^33s" if max(abs(a), abs(rest * k)) >= 2**33 * US else ""
        M.check("yearsmonths", ok and okm, "C10/years-months-scaling" + ("" if ok else ":components") + ("" if okm else ":length") + bigym,
                "negation/integer scaling not component-wise", y=y, mo=mo, k=k, a_us=a, neg=[n.years, n.months, td_us(n)],
                mul=[m.years, m.months, td_us(m)], expected_mul_us=rest * k + (365 * y * k + 30 * mo * k) * 86400 * US)
    # Interval operands delegate to as_duration()
    if c["b"] % 17 == 0:
        P = M.pendulum
        s = P.DateTime(2000, 1, 1, tzinfo=P.UTC)
        try:
            e = s.add(microseconds=b)
        except (OverflowError, ValueError):
            return
        iv = e - s
        M.cls("interval", sg[1], c["mb"])
        _cmp(M, "interval_ops", "iv-add", _try(lambda: iv + da), _try(lambda: tb + ta), "Duration", **ctx)
        _cmp(M, "interval_ops", "iv-mul", _try(lambda: iv * k), _try(lambda: tb * k), "Duration", k=k, **ctx)
        # the other operand being an Interval (signed, inverted, absolute - what diff() returns) on either side
        _cmp(M, "interval_ops", "d-sub-iv", _try(lambda: da - iv), _try(lambda: ta - tb), "Duration", **ctx)
        _cmp(M, "interval_ops", "d-add-iv", _try(lambda: da + iv), _try(lambda: ta + tb), "Duration", **ctx)
        _cmp(M, "interval_ops", "iv-sub-d", _try(lambda: iv - da), _try(lambda: tb - ta), "Duration", **ctx)
        _cmp(M, "interval_ops", "iv-sub-td", _try(lambda: iv - ta), _try(lambda: tb - ta), "Duration", **ctx)
        _cmp(M, "interval_ops", "td-sub-iv", _try(lambda: ta - iv), _try(lambda: ta - tb), None, **ctx)
        av = s.diff(e)                      # absolute interval: its length as a timedelta is |b|
        tav = dt.timedelta(microseconds=abs(b))
        if td_us(av) == abs(b):
            _cmp(M, "interval_ops", "d-sub-absiv", _try(lambda: da - av), _try(lambda: ta - tav), "Duration", **ctx)
            _cmp(M, "interval_ops", "d-add-absiv", _try(lambda: da + av), _try(lambda: ta + tav), "Duration", **ctx)
            _cmp(M, "interval_ops", "absiv-sub-d", _try(lambda: av - da), _try(lambda: tav - ta), "Duration", **ctx)
            _cmp(M, "interval_ops", "iv-sub-absiv", _try(lambda: iv - av), _try(lambda: tb - tav), "Duration", **ctx)
            _cmp(M, "interval_ops", "neg-absiv", _try(lambda: abs(-av)), _try(lambda: abs(-tav)), "Duration", **ctx)
        if a:
            _cmp(M, "interval_ops", "iv-floordiv", _try(lambda: iv // da), _try(lambda: tb // ta), "number", **ctx)
            _cmp(M, "interval_ops", "iv-mod", _try(lambda: iv % ta), _try(lambda: tb % ta), "Duration", **ctx)
