"""Workload generators shared by the property modules (deterministic in seed/prop/shard)."""
from __future__ import annotations

import bisect
import random

from pvmon.common import HOSTILE_ZONES, MAX_US, MIN_US, US, DAY_US
from pvmon.oracle import tzdb

PROBES = ("-gap", "-1s", "-1us", "0", "+1us", "+1s", "+gap")


def rng(M, extra=""):
    return random.Random(f"{M.seed}/{M.prop}/{M.shard}/{M.nshards}/{extra}")


def all_zones():
    return tzdb.zone_names()


def shard_zones(M, names=None):
    names = names if names is not None else all_zones()
    return names[M.shard::M.nshards]


def hostile(names=None):
    names = set(names or all_zones())
    return [z for z in HOSTILE_ZONES if z in names]


def probe_instants(t, ob, oa):
    g = abs(oa - ob) * US
    T = t * US
    return list(zip(PROBES, (T - g, T - US, T - 1, T, T + 1, T + US, T + g)))


def transitions(zone):
    return tzdb.Z.get(zone).trans


def ok_instant(u, margin_days=400):
    return MIN_US + margin_days * DAY_US < u < MAX_US - margin_days * DAY_US


def random_instant(r, lo_year=2, hi_year=9998):
    # uniform over the representable range, microsecond resolution
    lo = MIN_US + 366 * DAY_US
    hi = MAX_US - 366 * DAY_US
    return r.randrange(lo, hi)


def modern_instant(r):
    # 1850..2045, where tz rules are dense
    return r.randrange(-3786825600 * US, 2366841600 * US)


def crosses(zone, u0, u1):
    """does [u0,u1] (either order) touch a transition of zone (within its gap length)?"""
    z = tzdb.Z.get(zone)
    lo, hi = (u0, u1) if u0 <= u1 else (u1, u0)
    i = bisect.bisect_left(z.ts, lo // US - 86400)
    while i < len(z.trans):
        t, ob, oa, _ = z.trans[i]
        g = abs(oa - ob)
        if t - g > hi // US + 1:
            return False
        if lo // US - g <= t <= hi // US + g + 1:
            return True
        i += 1
    return False


def mk(zone, u, pend=None):
    """build a pendulum DateTime denoting UTC instant u in IANA zone `zone` with the raw
    constructor (fields/fold from the oracle; no pendulum conversion code involved)."""
    import pendulum

    f, off, fold = tzdb.Z.get(zone).render(u)
    return pendulum.DateTime(*f, tzinfo=pendulum.timezone(zone), fold=fold)
