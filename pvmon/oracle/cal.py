"""Proleptic-Gregorian calendar model (independent of pendulum): month shift with
end-of-month clamp, then weeks/days/time on the naive calendar."""
from __future__ import annotations

import calendar
import datetime as dt

from pvmon.common import DAY_US, US, ORD0


def shift_months(y, m, d, years, months):
    """-> (y, m, d) after shifting by years/months with the day clamped to the target month; None if out of 1..9999"""
    tot = y * 12 + (m - 1) + years * 12 + months
    ny, nm = divmod(tot, 12)
    nm += 1
    if not 1 <= ny <= 9999:
        return None
    return ny, nm, min(d, calendar.monthrange(ny, nm)[1])


def add_wall(wall_fields, Y=0, Mo=0, W=0, D=0, h=0, m=0, s=0, us=0):
    """wall_fields (y,m,d[,H,M,S,us]) -> naive wall in us since epoch after the calendar model; None if out of range"""
    y, mo, d = wall_fields[:3]
    r = shift_months(y, mo, d, Y, Mo)
    if r is None:
        return None
    H, Mi, S, U = (tuple(wall_fields[3:]) + (0, 0, 0, 0))[:4]
    base = (dt.date(*r).toordinal() - ORD0) * DAY_US + ((H * 60 + Mi) * 60 + S) * US + U
    return base + (W * 7 + D) * DAY_US + ((h * 60 + m) * 60 + s) * US + us


def dim(y, m):
    return calendar.monthrange(y, m)[1]
