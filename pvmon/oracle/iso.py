"""Constructive ISO 8601 oracle: renders a value in each supported form (so the expected
parse result is known by construction) and decides validity of week/ordinal/calendar
triples with datetime.date."""
from __future__ import annotations

import datetime as dt

DATE_FORMS = ("cal-ext", "cal-basic", "ord-ext", "ord-basic", "week-ext-d", "week-basic-d", "week-ext", "week-basic")
TIME_FORMS_EXT = ("hh", "hh:mm", "hh:mm:ss")
TIME_FORMS_BASIC = ("hh", "hhmm", "hhmmss")


def render_date(d: dt.date, form: str):
    """-> (string, expected date).  week forms without weekday denote the Monday of d's ISO week"""
    y, m, day = d.year, d.month, d.day
    if form == "cal-ext":
        return f"{y:04d}-{m:02d}-{day:02d}", d
    if form == "cal-basic":
        return f"{y:04d}{m:02d}{day:02d}", d
    if form.startswith("ord"):
        n = d.timetuple().tm_yday
        return (f"{y:04d}-{n:03d}" if form == "ord-ext" else f"{y:04d}{n:03d}"), d
    iy, iw, iwd = d.isocalendar()
    if form == "week-ext-d":
        return f"{iy:04d}-W{iw:02d}-{iwd}", d
    if form == "week-basic-d":
        return f"{iy:04d}W{iw:02d}{iwd}", d
    monday = d - dt.timedelta(days=iwd - 1) if d.toordinal() - (iwd - 1) >= 1 else None
    if form == "week-ext":
        return f"{iy:04d}-W{iw:02d}", monday
    return f"{iy:04d}W{iw:02d}", monday


def is_basic(form):
    return "basic" in form


def render_time(H, M, S, form, frac=None, fracsep="."):
    """-> (string, (H, M, S, us)); frac = digit string (1..9) appended to the seconds"""
    if form == "hh":
        return f"{H:02d}", (H, 0, 0, 0)
    if form in ("hh:mm", "hhmm"):
        return (f"{H:02d}:{M:02d}" if ":" in form else f"{H:02d}{M:02d}"), (H, M, 0, 0)
    s = f"{H:02d}:{M:02d}:{S:02d}" if ":" in form else f"{H:02d}{M:02d}{S:02d}"
    us = 0
    if frac:
        s += fracsep + frac
        us = int((frac + "000000")[:6])      # extra digits truncated
    return s, (H, M, S, us)


def render_offset(off_min, form):
    """off_min: whole minutes or None; form in Z, hh, hhmm, hh:mm -> (string, offset seconds|None)"""
    if off_min is None:
        return "", None
    if form == "Z":
        return "Z", 0
    sign = "-" if off_min < 0 else "+"
    h, m = divmod(abs(off_min), 60)
    if form == "hh":
        return f"{sign}{h:02d}", (h * 3600) * (-1 if off_min < 0 else 1)
    if form == "hhmm":
        return f"{sign}{h:02d}{m:02d}", off_min * 60
    return f"{sign}{h:02d}:{m:02d}", off_min * 60


def invalid_dates(y):
    """strings that denote impossible dates/weeks/ordinals in year y (with a reason tag)"""
    import calendar

    leap = calendar.isleap(y)
    long_ = dt.date(y, 12, 28).isocalendar()[1] == 53
    out = [(f"{y:04d}-00-10", "month0"), (f"{y:04d}-13-01", "month13"), (f"{y:04d}-01-00", "day0"), (f"{y:04d}-01-32", "day32"),
           (f"{y:04d}-04-31", "day31-of-30"), (f"{y:04d}-02-30", "feb30"), (f"{y:04d}0230", "feb30-basic"),
           (f"{y:04d}-000", "ordinal0"), (f"{y:04d}-367", "ordinal367"), (f"{y:04d}000", "ordinal0-basic"),
           (f"{y:04d}-W00-1", "week0"), (f"{y:04d}-W54-1", "week54"), (f"{y:04d}-W01-0", "weekday0"), (f"{y:04d}-W01-8", "weekday8"),
           (f"{y:04d}W001", "week0-basic"), (f"{y:04d}W010", "weekday0-basic"), (f"{y:04d}-W00", "week0-noday")]
    if not leap:
        out += [(f"{y:04d}-02-29", "feb29-nonleap"), (f"{y:04d}-366", "ordinal366-nonleap"), (f"{y:04d}366", "ordinal366-nonleap-basic")]
    if not long_:
        out += [(f"{y:04d}-W53-1", "week53-short"), (f"{y:04d}W531", "week53-short-basic"), (f"{y:04d}-W53", "week53-short-noday")]
    return out


def invalid_times():
    return [("2020-01-01T25:00:00", "hour25"), ("2020-01-01T10:60:00", "minute60"), ("2020-01-01T10:10:60", "second60"),
            ("2020-01-01T10:10:61", "second61"), ("20200101T256000", "basic-hour25"), ("10:60", "time-minute60"), ("25:00", "time-hour25")]
