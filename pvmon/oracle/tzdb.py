"""Independent tz-database oracle.

Reads the very TZif file zoneinfo resolves (zoneinfo.TZPATH first, then the tzdata
package), parses the 64-bit body with struct, and answers
  off_at(utc_us), render(utc_us), transitions, wall_candidates(wall_us), gap_for(wall_us).
Transitions produced by the POSIX footer are discovered by probing plain
zoneinfo.ZoneInfo (never pendulum's subclass) and bisecting to the second.
Self-check: table vs plain ZoneInfo at T-1s, T, T+1s of every explicit transition.
"""
from __future__ import annotations

import bisect
import datetime as dt
import importlib.resources
import os
import struct
import zoneinfo

from pvmon.common import US, us_to_fields

UTC = dt.timezone.utc
EPOCH = dt.datetime(1970, 1, 1, tzinfo=UTC)
LO_S = -62135596800 + 86400 * 366       # year 2
HI_S = 253402300799 - 86400 * 366       # year 9998
SAMPLE_YEARS = (2100, 2400, 5000, 9997)


class OracleFault(Exception):
    pass


def zone_names():
    names = sorted(zoneinfo.available_timezones())
    return [n for n in names if n not in ("localtime", "Factory", "posixrules")
            and not n.startswith(("posix/", "right/"))]


def _find(key: str) -> bytes:
    for p in zoneinfo.TZPATH:
        f = os.path.join(p, key)
        if os.path.isfile(f):
            with open(f, "rb") as fh:
                return fh.read()
    pk, _, nm = key.rpartition("/")
    pkg = "tzdata.zoneinfo" + ("." + pk.replace("/", ".") if pk else "")
    return importlib.resources.files(pkg).joinpath(nm).read_bytes()


def _parse(b: bytes):
    if b[:4] != b"TZif":
        raise OracleFault("not a TZif file")

    def hdr(o):
        return struct.unpack(">6l", b[o + 20:o + 44])

    ver = b[4:5]
    isutc, isstd, leap, timecnt, typecnt, charcnt = hdr(0)
    if ver == b"\x00":
        o = 44
        times = struct.unpack(">%dl" % timecnt, b[o:o + 4 * timecnt]); o += 4 * timecnt
    else:
        o = 44 + timecnt * 4 + timecnt + typecnt * 6 + charcnt + leap * 8 + isstd + isutc
        isutc, isstd, leap, timecnt, typecnt, charcnt = hdr(o)
        o += 44
        times = struct.unpack(">%dq" % timecnt, b[o:o + 8 * timecnt]); o += 8 * timecnt
    idx = b[o:o + timecnt]; o += timecnt
    tt = [struct.unpack(">lBB", b[o + 6 * i:o + 6 * i + 6]) for i in range(typecnt)]
    footer = ""
    if ver != b"\x00":
        parts = b.rstrip(b"\n").rsplit(b"\n", 1)
        if len(parts) == 2:
            footer = parts[1].decode("ascii", "replace")
    return times, idx, tt, footer


def _us_to_dt(us):
    return EPOCH + dt.timedelta(microseconds=us)


class Z:
    _cache: dict = {}

    @classmethod
    def get(cls, key) -> "Z":
        z = cls._cache.get(key)
        if z is None:
            z = cls._cache[key] = cls(key)
        return z

    def __init__(self, key: str):
        self.key = key
        self.zi = zoneinfo.ZoneInfo(key)
        times, idx, tt, self.footer = _parse(_find(key))
        self.n_explicit = len(times)
        # explicit table: (t, off_after); offset before the first one from CPython
        self._xt = list(times)
        self._xo = [tt[i][0] for i in idx]
        self._before = self._zi_off_s(times[0] - 1) if times and times[0] - 1 > -62135596800 + 86400 else (
            tt[0][0] if tt else 0)
        self.last_explicit = times[-1] if times else None
        self.trans = []  # (utc_s, off_before, off_after), off_before != off_after
        prev = self._before
        for t, i in zip(times, idx):
            oa = tt[i][0]
            if oa != prev and LO_S < t < HI_S:
                self.trans.append((t, prev, oa, "x"))
            prev = oa
        self._scan_footer()
        self.trans.sort()
        self.ts = [t[0] for t in self.trans]

    # -- plain ZoneInfo probes (trusted base) -------------------------------------
    def _zi_off_s(self, s: int) -> int:
        o = _us_to_dt(s * US).astimezone(self.zi).utcoffset()
        return o.days * 86400 + o.seconds

    def _scan_footer(self):
        last = self.last_explicit if self.last_explicit is not None else -2**62

        def scan(y0, y1):
            s = int((dt.datetime(y0, 1, 1, tzinfo=UTC) - EPOCH).total_seconds())
            e = int((dt.datetime(y1, 1, 1, tzinfo=UTC) - EPOCH).total_seconds())
            s = max(s, last + 1)
            step = 43200
            prev = self._zi_off_s(s)
            t = s
            while t < e:
                n = t + step
                o = self._zi_off_s(n)
                if o != prev:
                    lo, hi = t, n
                    while hi - lo > 1:
                        mid = (lo + hi) // 2
                        if self._zi_off_s(mid) == prev:
                            lo = mid
                        else:
                            hi = mid
                    self.trans.append((hi, prev, o, "f"))
                prev = o
                t = n

        if "," not in self.footer and self.footer:
            return  # fixed-offset footer: no further transitions
        y_last = _us_to_dt(max(last, 0) * US).year if last > 0 else 1970
        scan(min(y_last, 2037), 2046)
        for y in SAMPLE_YEARS:
            scan(y, y + 1)

    # -- queries ---------------------------------------------------------------------
    def off_at(self, us: int) -> int:
        """UTC offset in seconds in force at UTC instant `us`."""
        s = us // US
        if self.last_explicit is not None and s < self.last_explicit:
            i = bisect.bisect_right(self._xt, s)
            return self._before if i == 0 else self._xo[i - 1]
        return self._zi_off_s(s)

    def render(self, us: int):
        """(fields7, offset_s, fold) of UTC instant us in this zone."""
        off = self.off_at(us)
        fold = 0
        s = us // US
        i = bisect.bisect_right(self.ts, s)
        if i:
            t, ob, oa, _ = self.trans[i - 1]
            if oa < ob and s - t < ob - oa:
                fold = 1
        return us_to_fields(us + off * US), off, fold

    def _offsets_near(self, s: int):
        out = set()
        i = bisect.bisect_left(self.ts, s - 2 * 86400)
        while i < len(self.trans) and self.trans[i][0] <= s + 2 * 86400:
            out.add(self.trans[i][1]); out.add(self.trans[i][2]); i += 1
        for d in (-90000, 0, 90000):
            try:
                out.add(self.off_at((s + d) * US))
            except (OverflowError, ValueError):
                pass
        return out

    def wall_candidates(self, wall: int):
        """sorted UTC instants (us) whose rendering in this zone equals wall (us)."""
        c = set()
        for o in self._offsets_near(wall // US):
            u = wall - o * US
            try:
                if self.off_at(u) == o:
                    c.add(u)
            except (OverflowError, ValueError):
                pass
        return sorted(c)

    def gap_for(self, wall: int):
        s = wall // US
        i = bisect.bisect_left(self.ts, s - 2 * 86400)
        for t, ob, oa, _ in self.trans[i:i + 8]:
            if oa > ob and (t + ob) * US <= wall < (t + oa) * US:
                return (t, ob, oa)
        return None

    def classify_wall(self, wall: int):
        """-> (cls, cands, gap); cls in once|twice|gap|exotic"""
        cands = self.wall_candidates(wall)
        gap = self.gap_for(wall)
        if len(cands) >= 3 or (gap and cands) or (not gap and not cands):
            return "exotic", cands, gap
        if len(cands) == 1:
            return "once", cands, gap
        if len(cands) == 2:
            return "twice", cands, gap
        return "gap", cands, gap

    def selfcheck(self):
        """table vs plain ZoneInfo around every explicit transition; raises OracleFault."""
        n = 0
        for t, ob, oa, kind in self.trans:
            if kind != "x":
                continue
            for s in (t - 1, t, t + 1):
                u = s * US
                f, off, fold = self.render(u)
                nat = _us_to_dt(u).astimezone(self.zi)
                o = nat.utcoffset()
                exp = ((nat.year, nat.month, nat.day, nat.hour, nat.minute, nat.second, nat.microsecond),
                       o.days * 86400 + o.seconds, nat.fold)
                if (f, off, fold) != exp:
                    raise OracleFault(f"{self.key} at {s}: table {(f, off, fold)} != zoneinfo {exp}")
                n += 1
        return n
