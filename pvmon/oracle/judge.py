"""Judging helpers used by several properties."""
from __future__ import annotations

from pvmon.common import fields, inst, off_us, US, wall_us
from pvmon.oracle import tzdb


def zkind(d):
    """('naive',) | ('iana', key) | ('fixed', offset_s) | ('foreign', repr)"""
    import pendulum
    from pendulum.tz.timezone import FixedTimezone, Timezone

    tz = d.tzinfo
    if tz is None:
        return ("naive",)
    if isinstance(tz, Timezone):
        return ("iana", tz.key)
    if isinstance(tz, FixedTimezone):
        return ("fixed", tz.offset)
    return ("foreign", type(tz).__name__)


def valid_local(d):
    """is d (aware, pendulum tz) a valid local time: fields/offset == tz database rendering of its instant"""
    k = zkind(d)
    if k[0] == "iana":
        f, off, fold = tzdb.Z.get(k[1]).render(inst(d))
        return f == fields(d) and off * US == off_us(d)
    if k[0] == "fixed":
        return off_us(d) == k[1] * US
    return True


def render_problems(d, u, strict_fold=False):
    """d must be the tz-database rendering of instant u in its own zone; -> list of problem tags"""
    k = zkind(d)
    bad = []
    if k[0] == "naive":
        if wall_us(d) != u:
            bad.append("naive-wall")
        return bad
    if inst(d) != u:
        bad.append("instant")
    if k[0] == "iana":
        f, off, fold = tzdb.Z.get(k[1]).render(u)
        if f != fields(d):
            bad.append("fields")
        if off * US != off_us(d):
            bad.append("offset")
        if strict_fold and not bad and fold != d.fold:
            bad.append("fold")
    elif k[0] == "fixed":
        if off_us(d) != k[1] * US:
            bad.append("offset")
        if wall_us(d) != u + k[1] * US:
            bad.append("fields")
    return bad


def desc(d):
    try:
        return f"{type(d).__name__}({d.isoformat()} fold={getattr(d, 'fold', None)} tz={zkind(d)})"
    except Exception:
        return repr(d)
