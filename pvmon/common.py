"""Shared constants and integer time helpers (no pendulum import here)."""
from __future__ import annotations

import datetime as _dt
import os

VERIF = os.path.dirname(os.path.dirname(os.path.abspath(__file__)))
REPO = os.environ.get("PVMON_REPO", "/repo")
PY = "/venv/bin/python"
OUT = os.environ.get("PVMON_OUT") or os.path.join(VERIF, "out")
EVIDENCE = os.path.join(os.environ["PVMON_OUT"], "evidence") if os.environ.get("PVMON_OUT") else os.path.join(VERIF, "evidence")
CACHE = os.path.join(VERIF, ".cache")
DEPS = os.path.join(VERIF, ".deps")

US = 10**6
DAY_US = 86400 * US
N0 = _dt.datetime(1970, 1, 1)
ORD0 = N0.toordinal()
MIN_US = (_dt.datetime(1, 1, 1) - N0) // _dt.timedelta(microseconds=1)
MAX_US = (_dt.datetime(9999, 12, 31, 23, 59, 59, 999999) - N0) // _dt.timedelta(microseconds=1)

_td_days = _dt.timedelta.days.__get__
_td_seconds = _dt.timedelta.seconds.__get__
_td_us = _dt.timedelta.microseconds.__get__


def td_us(td) -> int:
    """Exact integer microseconds of a timedelta; reads the native triple
    (pendulum.Duration overrides .seconds/.microseconds)."""
    return (_td_days(td) * 86400 + _td_seconds(td)) * US + _td_us(td)


def wall_us(d) -> int:
    """Wall fields of a date/datetime as integer us since 1970-01-01 (naive)."""
    o = _dt.date.toordinal(d) - ORD0
    if isinstance(d, _dt.datetime):
        return (o * 86400 + d.hour * 3600 + d.minute * 60 + d.second) * US + d.microsecond
    return o * 86400 * US


def off_us(d) -> int:
    o = d.utcoffset()
    return 0 if o is None else td_us(o)


def inst(d) -> int:
    """UTC instant (integer us since epoch) from the object's own fields and utcoffset()."""
    return wall_us(d) - off_us(d)


def us_to_fields(us: int):
    """naive wall us -> (y, m, d, H, M, S, us)"""
    days, rem = divmod(us, DAY_US)
    d = _dt.date.fromordinal(days + ORD0)
    s, u = divmod(rem, US)
    return (d.year, d.month, d.day, s // 3600, s // 60 % 60, s % 60, u)


def us_to_naive(us: int) -> _dt.datetime:
    return _dt.datetime(*us_to_fields(us))


def fields(d):
    if isinstance(d, _dt.datetime):
        return (d.year, d.month, d.day, d.hour, d.minute, d.second, d.microsecond)
    if isinstance(d, _dt.date):
        return (d.year, d.month, d.day)
    return (d.hour, d.minute, d.second, d.microsecond)


def in_range(us: int, margin_days: int = 0) -> bool:
    return MIN_US + margin_days * DAY_US <= us <= MAX_US - margin_days * DAY_US


def fmt_us(us: int) -> str:
    try:
        return us_to_naive(us).isoformat()
    except Exception:
        return f"us={us}"


HOSTILE_ZONES = [
    "Australia/Lord_Howe", "Pacific/Kiritimati", "Pacific/Apia", "Africa/Monrovia",
    "Europe/Amsterdam", "Europe/Paris", "Europe/Dublin", "Africa/Casablanca",
    "Antarctica/Troll", "Asia/Kathmandu", "Pacific/Chatham", "America/Sao_Paulo",
    "America/Havana", "Asia/Beirut", "America/St_Johns", "UTC", "Europe/London",
    "America/New_York", "Africa/Abidjan", "America/Argentina/Buenos_Aires",
    "Asia/Tehran", "Europe/Sofia", "America/Nipigon", "Africa/El_Aaiun", "Asia/Gaza",
]
