"""Monitor state + contract kit (the 'hookkit' of DESIGN.md §2.2).

A Monitor collects, for one worker process:
  evals[name]      oracle evaluations per monitor (zero for a deciding monitor => inconclusive)
  classes          hashes of distinct non-trivial class keys
  violations[sig]  count + first witnesses (records and lets the program go on)
  samples          actual cases
  digests          case_key -> digest, joined across configurations by the driver
Contracts replace an attribute on its owning class/module with a wrapper that runs the
real function and then the oracle.  Oracles run with `quiet` set, so nested contracts
triggered by the oracle's own use of the API are pass-through (no recursion, no
self-observation).
"""
from __future__ import annotations

import collections
import functools
import traceback


class Monitor:
    def __init__(self, prop, config, tier, seed, shard, nshards):
        self.prop, self.config, self.tier, self.seed = prop, config, tier, seed
        self.shard, self.nshards = shard, nshards
        self.evals = collections.Counter()
        self.counters = collections.Counter()
        self.classes = set()
        self.violations = {}
        self.samples = []
        self.digests = {}
        self.unattached = []
        self.attached = []
        self.current = None      # case being run (JSON-serialisable)
        self.quiet = 0           # >0 while an oracle runs
        self.nsample = 0
        self.notes = []
        self.ticks = 0
        self.rearm = None        # set by the worker: re-arms the per-case CPU watchdog

    # -- recording -------------------------------------------------------------------
    def ev(self, name, n=1):
        self.evals[name] += n

    def progress(self):
        """called by the workload loop of a bulk case between two library calls: re-arms the CPU watchdog, whose budget is
        therefore per workload step (never re-armed from inside a contract: a library loop that keeps calling a
        contracted function must still trip it)"""
        if self.rearm:
            self.rearm()

    def count(self, name, n=1):
        self.counters[name] += n

    def cls(self, *key):
        self.classes.add(hash(key))

    def sample(self, case, every=1):
        self.nsample += 1
        if len(self.samples) < 4:
            self.samples.append(case)
        elif len(self.samples) < 8 and self.nsample % 5003 == 0:
            self.samples.append(case)

    def viol(self, sig, what, **detail):
        v = self.violations.get(sig)
        if v is None:
            v = self.violations[sig] = {"sig": sig, "count": 0, "witnesses": []}
        v["count"] += 1
        if len(v["witnesses"]) < 3:
            v["witnesses"].append({"what": what, "case": self.current, "detail": _js(detail),
                                   "config": self.config})

    def check(self, name, ok, sig, what="", **detail):
        """one oracle evaluation of monitor `name`"""
        self.evals[name] += 1
        if not ok:
            self.viol(sig, what or name, **detail)
        return ok

    def digest(self, key, value):
        self.digests[key] = value

    # -- contracts -----------------------------------------------------------------
    def contract(self, owner, name, post=None, pre=None, exc=None, label=None):
        """Wrap owner.name.  pre(args, kwargs)->snap ; post(ret, args, kwargs, snap) ;
        exc(e, args, kwargs, snap).  All run with nested contracts silenced."""
        label = label or f"{getattr(owner, '__name__', owner)}.{name}"
        try:
            raw = owner.__dict__[name] if isinstance(owner, type) else getattr(owner, name)
        except (KeyError, AttributeError):
            self.unattached.append(label)
            return False
        kind = None
        fn = raw
        if isinstance(raw, staticmethod):
            kind, fn = "static", raw.__func__
        elif isinstance(raw, classmethod):
            kind, fn = "class", raw.__func__
        elif isinstance(raw, property):
            kind, fn = "prop", raw.fget
        mon = self

        def wrapper(*a, **k):
            if mon.quiet:
                return fn(*a, **k)
            snap = None
            if pre is not None:
                mon.quiet += 1
                try:
                    snap = pre(a, k)
                except Exception:
                    mon._oracle_error(label, "pre")
                finally:
                    mon.quiet -= 1
            try:
                ret = fn(*a, **k)
            except BaseException as e:
                if exc is not None and isinstance(e, Exception):
                    mon.quiet += 1
                    try:
                        exc(e, a, k, snap)
                    except Exception:
                        mon._oracle_error(label, "exc")
                    finally:
                        mon.quiet -= 1
                raise
            if post is not None:
                mon.quiet += 1
                try:
                    post(ret, a, k, snap)
                except Exception:
                    mon._oracle_error(label, "post")
                finally:
                    mon.quiet -= 1
            return ret

        try:
            functools.update_wrapper(wrapper, fn)
        except Exception:
            pass
        wrapper.__pvmon_wrapped__ = fn
        if kind == "static":
            new = staticmethod(wrapper)
        elif kind == "class":
            new = classmethod(wrapper)
        elif kind == "prop":
            new = property(wrapper, raw.fset, raw.fdel, raw.__doc__)
        else:
            new = wrapper
        setattr(owner, name, new)
        self.attached.append(label)
        return True

    def _oracle_error(self, label, phase):
        # an exception inside an oracle is a harness fault: counted, makes the run inconclusive
        self.counters["oracle_error"] += 1
        if len(self.notes) < 5:
            self.notes.append(f"oracle error in {label}/{phase}: {traceback.format_exc(limit=4)}")

    def result(self):
        return {
            "prop": self.prop, "config": self.config, "tier": self.tier, "seed": self.seed,
            "shard": self.shard, "nshards": self.nshards,
            "evals": dict(self.evals), "counters": dict(self.counters),
            "nclasses": len(self.classes),
            "violations": list(self.violations.values()),
            "samples": _js(self.samples), "digests": self.digests,
            "unattached": self.unattached, "attached": self.attached, "notes": self.notes,
        }


def _js(x):
    """make JSON-serialisable (repr for anything exotic)"""
    if isinstance(x, (str, int, float, bool)) or x is None:
        return x
    if isinstance(x, dict):
        return {str(k): _js(v) for k, v in x.items()}
    if isinstance(x, (list, tuple, set, frozenset)):
        return [_js(v) for v in x]
    return repr(x)
