import sys, os
os.environ["PENDULUM_EXTENSIONS"]="0"
import atheris, warnings
warnings.simplefilter("ignore")
with atheris.instrument_imports(include=["pendulum"]):
    import pendulum
bad={}
def one(data):
    fdp=atheris.FuzzedDataProvider(data)
    s=fdp.ConsumeUnicodeNoSurrogates(40)
    try: pendulum.parse(s)
    except ValueError: pass
    except Exception as e:
        k=type(e).__name__
        if k not in bad: bad[k]=s; print("NEW", k, repr(s), flush=True)
atheris.Setup(sys.argv+["-runs=60000","-seed=1","-max_len=64","-dict=/tmp/scratch/iso.dict"], one)
atheris.Fuzz()
