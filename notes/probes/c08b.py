import pendulum, datetime as dt, random, collections, os, zoneinfo, re
random.seed(11)
locs = sorted(d for d in os.listdir("/repo/src/pendulum/locales") if os.path.isdir("/repo/src/pendulum/locales/"+d) and not d.startswith("_"))
zones = ["UTC","Asia/Kolkata","America/St_Johns","America/Argentina/Buenos_Aires","Europe/Paris","Etc/GMT+5","America/Indiana/Indianapolis","Australia/Lord_Howe","Pacific/Chatham"]
stats=collections.Counter(); ex={}
def rnd_dt():
    z=random.choice(zones)
    ts=random.randrange(-30610224000, 253370764800)
    n=dt.datetime.fromtimestamp(ts, zoneinfo.ZoneInfo(z)).replace(microsecond=random.choice([0,random.randrange(10**6),999999,1,100000]))
    return pendulum.instance(n)
# token oracle
def oracle(tok, d):
    n = dt.datetime(d.year,d.month,d.day,d.hour,d.minute,d.second,d.microsecond,tzinfo=zoneinfo.ZoneInfo(d.timezone_name),fold=d.fold)
    off = int(n.utcoffset().total_seconds()); sign = "-" if off<0 else "+"; a=abs(off)
    T = {"YYYY": "%d"%n.year, "YY": "%04d"%n.year, "Y":"%d"%n.year, "Q": str((n.month-1)//3+1), "MM": n.strftime("%m"), "M": str(n.month), "DD": n.strftime("%d"), "D": str(n.day),
         "DDDD": n.strftime("%j"), "DDD": str(int(n.strftime("%j"))), "d": n.strftime("%w"), "E": n.strftime("%u"), "HH": n.strftime("%H"), "H": str(n.hour), "hh": n.strftime("%I"), "h": str(int(n.strftime("%I"))),
         "mm": n.strftime("%M"), "m": str(n.minute), "ss": n.strftime("%S"), "s": str(n.second), "SSSSSS": n.strftime("%f"), "SSS": n.strftime("%f")[:3], "S": n.strftime("%f")[:1], "SS": n.strftime("%f")[:2],"SSSS": n.strftime("%f")[:4],"SSSSS": n.strftime("%f")[:5],
         "A": n.strftime("%p"), "Z": "%s%02d:%02d"%(sign,a//3600,a%3600//60), "ZZ": "%s%02d%02d"%(sign,a//3600,a%3600//60), "z": d.timezone_name, "zz": n.tzname(),
         "X": str(int((n - dt.datetime(1970,1,1,tzinfo=dt.timezone.utc)).total_seconds()//1)), }
    T["YY"]=T["YY"][2:]
    return T.get(tok)
toks = ["YYYY","YY","Y","Q","MM","M","DD","D","DDDD","DDD","d","E","HH","H","hh","h","mm","m","ss","s","S","SS","SSS","SSSS","SSSSS","SSSSSS","A","Z","ZZ","z","zz","X"]
for i in range(20000):
    d=rnd_dt()
    for t in toks:
        got=d.format(t); exp=oracle(t,d); stats["tok"]+=1
        if got!=exp: stats["BADTOK "+t]+=1; ex.setdefault("BADTOK "+t,(str(d),got,exp))
# round trips
seps=["-","/"," ",":",".",", ","[T]"," [o'clock] "]
date_f=[["YYYY","MM","DD"],["YYYY","M","D"],["D","MMMM","YYYY"],["YYYY","DDDD"],["dddd","D","MMMM","YYYY"],["ddd","DD","MMM","YYYY"]]
time_f=[["HH","mm","ss"],["H","m","s"],["hh","mm","ss","A"],["h","m","s","A"]]
frac=["SSSSSS"]
tzf=["Z","ZZ","z"]
for i in range(30000):
    d=rnd_dt(); loc=random.choice(locs)
    if d.year<1000 or d.utcoffset().total_seconds()%60: continue
    df=random.choice(date_f); tf=random.choice(time_f)
    parts=df+tf+random.choice([frac])+[random.choice(tzf)]
    fmt=""
    for p in parts: fmt+=p+random.choice(seps)
    fmt=fmt.rstrip()
    # avoid : right before/after? keep
    try: s=d.format(fmt,locale=loc)
    except Exception as e:
        stats["FMTERR"]+=1; ex.setdefault("FMTERR "+type(e).__name__,(loc,fmt,str(e))); continue
    stats["rt"]+=1
    try:
        r=pendulum.from_format(s,fmt,locale=loc)
        ok=(r.year,r.month,r.day,r.hour,r.minute,r.second,r.microsecond,r.utcoffset())==(d.year,d.month,d.day,d.hour,d.minute,d.second,d.microsecond,d.utcoffset())
        if not ok:
            k="RTBAD "+loc+" "+"|".join(p for p in parts if p in("z","Z","ZZ","Do","MMMM","MMM","dddd","ddd","A","hh","h","DDDD")); stats[k]+=1; ex.setdefault(k,(fmt,s,str(r),str(d),d.fold))
    except Exception as e:
        k="RTERR "+type(e).__name__+" "+loc+" "+" ".join(p for p in parts if p in("z","Do","MMMM","MMM","dddd","ddd","A","DDDD")); stats[k]+=1; ex.setdefault(k,(fmt,s,str(e)[:80]))
for k,v in sorted(stats.items()): print(k,v,ex.get(k,""))
