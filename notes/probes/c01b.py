import pendulum, datetime as dt, time, collections, sys, random, zoneinfo, pytz
from dateutil import tz as dtz
from tzo import *
random.seed(3)
N0 = dt.datetime(1970,1,1)
def wall_us(d):
    x = dt.datetime(d.year,d.month,d.day,d.hour,d.minute,d.second,d.microsecond)-N0
    return (x.days*86400+x.seconds)*10**6+x.microseconds
def inst(d): return wall_us(d) - (d.utcoffset().days*86400+d.utcoffset().seconds)*10**6 - d.utcoffset().microseconds
stats=collections.Counter(); ex={}
zones = pendulum.timezones()
step=int(sys.argv[1])
Zc={}
def getZ(k):
    if k not in Zc: Zc[k]=Z(k)
    return Zc[k]
def check(kind, res, u, key, z):
    stats["n "+kind]+=1
    bad=[]
    if res.timezone_name!=key: bad.append("name")
    if inst(res)!=u: bad.append("instant")
    nat = us_to_dt(u).astimezone(z.zi)
    if (nat.year,nat.month,nat.day,nat.hour,nat.minute,nat.second,nat.microsecond,nat.utcoffset(),nat.fold)!=(res.year,res.month,res.day,res.hour,res.minute,res.second,res.microsecond,res.utcoffset(),res.fold): bad.append("render")
    if bad:
        k=kind+" "+",".join(bad); stats["BAD "+k]+=1; ex.setdefault(k,(key,u,str(res),res.fold,str(nat),nat.fold))
t0=time.time()
for key in zones[::step]:
    z=getZ(key)
    others=[random.choice(zones) for _ in range(2)]+["UTC","Australia/Lord_Howe"]
    for (t,ob,oa) in z.trans:
        g=abs(oa-ob)
        for du in (-g*10**6, -10**6, -1, 0, 1, 10**6, g*10**6):
            u=t*10**6+du
            if not(-62135596800+86400*400 < u//10**6 < 253402300799-86400*400): continue
            natu = us_to_dt(u)
            for src in others:
                a = pendulum.instance(natu.astimezone(zoneinfo.ZoneInfo(src)))   # pendulum value in src zone
                if inst(a)!=u: stats["BAD src-instance zi"]+=1; ex.setdefault("srcinst",(src,u,str(a))); continue
                check("in_tz", a.in_tz(key), u, key, z)
                check("astimezone", a.astimezone(pendulum.timezone(key)), u, key, z)
                b = a.in_tz(key)
                c = random.choice(zones)
                if inst(b.in_tz(c))!=inst(a.in_tz(c)) or b.in_tz(c).utcoffset()!=a.in_tz(c).utcoffset(): stats["BAD path"]+=1
            # instance of foreign tzinfo kinds located in zone key
            zi = natu.astimezone(zoneinfo.ZoneInfo(key)); check("inst-zoneinfo", pendulum.instance(zi), u, key, z)
            try:
                py = natu.astimezone(pytz.timezone(key)); check("inst-pytz", pendulum.instance(py), u, key, z)
            except pytz.UnknownTimeZoneError: stats["pytz-unknown"]+=1
            du_ = dtz.gettz(key)
            if du_ is not None:
                dd = natu.astimezone(du_); r = pendulum.instance(dd); stats["n inst-dateutil"]+=1
                if inst(r)!=u: stats["BAD inst-dateutil instant"]+=1; ex.setdefault("dateutil",(key,u,str(dd),str(r)))
            fx = natu.astimezone(dt.timezone(dt.timedelta(seconds=z.off_at(u)))); r=pendulum.instance(fx); stats["n inst-fixed"]+=1
            if inst(r)!=u or r.utcoffset()!=fx.utcoffset(): stats["BAD inst-fixed"]+=1; ex.setdefault("fixed",(key,u,str(fx),str(r)))
            # from_timestamp
            if du in (0,-1,1,10**6,-10**6):
                s=u//10**6
                r=pendulum.from_timestamp(s,key); check("from_ts", r, s*10**6, key, z)
                if r.int_timestamp!=s: stats["BAD int_ts"]+=1; ex.setdefault("int_ts",(key,s,r.int_timestamp))
print(time.time()-t0)
for k,v in sorted(stats.items()): print(k,v, ex.get(k.replace("BAD ",""),""))
