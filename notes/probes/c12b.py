import pendulum, datetime as dt, time, collections, sys
from tzo import *
N0 = dt.datetime(1970,1,1)
def wall_us(d):
    x = dt.datetime(d.year,d.month,d.day,d.hour,d.minute,d.second,d.microsecond)-N0
    return (x.days*86400+x.seconds)*10**6+x.microseconds
def inst(d): return wall_us(d) - int(d.utcoffset().total_seconds())*10**6
def render(z, u):
    d = us_to_dt(u).astimezone(z.zi); return d
UNITS=["second","minute","hour","day","week","month","year","decade","century"]
def label(unit, d, ws=0):
    if unit=="second": return (d.year,d.month,d.day,d.hour,d.minute,d.second)
    if unit=="minute": return (d.year,d.month,d.day,d.hour,d.minute)
    if unit=="hour": return (d.year,d.month,d.day,d.hour)
    if unit=="day": return (d.year,d.month,d.day)
    if unit=="week":
        dd = dt.date(d.year,d.month,d.day); return dd - dt.timedelta(days=(dd.weekday()-ws)%7)
    if unit=="month": return (d.year,d.month)
    if unit=="year": return d.year
    if unit=="decade": return d.year//10
    if unit=="century": return (d.year-1)//100
SUB={"second","minute","hour"}
stats=collections.Counter(); ex={}
zones = pendulum.timezones()[::int(sys.argv[1])]
t0=time.time()
for key in zones:
    z=Z(key)
    for (t,ob,oa) in z.trans:
        if t< -5*10**9 or t> 4*10**9: continue
        # x values: a few instants around the transition, and same local day
        for du in (-3600*5, -1, 0, 1, 1800, 3600*5, -86400, 86400):
            u=(t+du)*10**6+ (123456 if du not in(0,) else 0)
            nat = render(z,u)
            xs = {"conv": pendulum.from_timestamp(0,"UTC").add(microseconds=u).in_tz(key)}
            try: xs["ctor"]= pendulum.datetime(nat.year,nat.month,nat.day,nat.hour,nat.minute,nat.second,nat.microsecond,tz=key,fold=nat.fold)
            except Exception as e: pass
            # ctor with default fold=1 if it denotes the same instant
            c1 = pendulum.datetime(nat.year,nat.month,nat.day,nat.hour,nat.minute,nat.second,nat.microsecond,tz=key)
            if inst(c1)==u: xs["ctor1"]=c1
            for prov,x in xs.items():
                assert inst(x)==u, (prov,x,u)
                for unit in UNITS:
                    for which in ("start_of","end_of"):
                        r = getattr(x,which)(unit)
                        stats["n"]+=1
                        bad=[]
                        if label(unit,r)!=label(unit,x): bad.append("label")
                        if which=="start_of":
                            if inst(r)>u: bad.append("order")
                            nb = render(z, inst(r)-1)
                        else:
                            if inst(r)<u: bad.append("order")
                            nb = render(z, inst(r)+1)
                        same = label(unit,nb)==label(unit,x)
                        if unit in SUB: same = same and nb.utcoffset()==r.utcoffset()
                        if same: bad.append("boundary")
                        if r.timezone_name!=key: bad.append("tz")
                        r2 = getattr(r,which)(unit)
                        if inst(r2)!=inst(r): bad.append("idem")
                        if bad:
                            k=(unit,which,prov,x.fold,",".join(bad)); stats[k]+=1; ex.setdefault(k,(key,str(x),str(r)))
print(time.time()-t0, stats["n"])
for k,v in sorted((k,v) for k,v in stats.items() if k!="n"): print(k,v,ex[k])
