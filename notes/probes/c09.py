import pendulum, datetime as dt, random
from pendulum import Duration
random.seed(4)
def tdus(t): return (dt.timedelta.days.__get__(t)*86400+dt.timedelta.seconds.__get__(t))*10**6+dt.timedelta.microseconds.__get__(t)
bad=0; kinds={}
for i in range(200000):
    def r(m): return random.choice([0,0,random.randrange(-m,m+1),random.randrange(-3,4)])
    kw = dict(years=r(100),months=r(1000),weeks=r(10**3),days=r(10**4),hours=r(10**5),minutes=r(10**6),seconds=r(10**7),milliseconds=r(10**6),microseconds=r(10**7))
    d = Duration(**kw)
    nat = dt.timedelta(days=kw['days']+365*kw['years']+30*kw['months'],weeks=kw['weeks'],hours=kw['hours'],minutes=kw['minutes'],seconds=kw['seconds'],milliseconds=kw['milliseconds'],microseconds=kw['microseconds'])
    errs=[]
    if tdus(d)!=tdus(nat) or d!=nat: errs.append("value")
    if d.years!=kw['years'] or d.months!=kw['months']: errs.append("ym")
    rest = tdus(nat) - (kw['years']*365+kw['months']*30)*86400*10**6
    sg = (rest>0)-(rest<0)
    comps = [d.weeks,d.remaining_days,d.hours,d.minutes,d.remaining_seconds,d.microseconds]
    if any((c>0)-(c<0) not in (0,sg) for c in comps): errs.append("sign")
    if not(abs(d.remaining_days)<7 and abs(d.hours)<24 and abs(d.minutes)<60 and abs(d.remaining_seconds)<60 and abs(d.microseconds)<10**6): errs.append("range")
    s = (((d.weeks*7+d.remaining_days)*24+d.hours)*60+d.minutes)*60+d.remaining_seconds
    if s*10**6+d.microseconds != rest: errs.append("sum")
    if not errs:
        d2 = Duration(years=d.years,months=d.months,weeks=d.weeks,days=d.remaining_days,hours=d.hours,minutes=d.minutes,seconds=d.remaining_seconds,microseconds=d.microseconds)
        if tdus(d2)!=tdus(d) or (d2.weeks,d2.remaining_days,d2.hours,d2.minutes,d2.remaining_seconds,d2.microseconds)!=tuple(comps): errs.append("rebuild")
    if errs:
        bad+=1
        k=",".join(errs); kinds[k]=kinds.get(k,0)+1
        if kinds[k]<=3: print(k, kw, repr(d), comps, rest)
print(bad, kinds)
