import pendulum, datetime as dt, random, collections, calendar, zoneinfo
from pendulum import _helpers as py
import pendulum._pendulum as rs
from tzo import *
random.seed(10)
N0=dt.datetime(1970,1,1); TD=dt.timedelta
def wall_us(d):
    x = dt.datetime(d.year,d.month,d.day,d.hour,d.minute,d.second,d.microsecond)-N0
    return (x.days*86400+x.seconds)*10**6+x.microseconds
def inst(d):
    o=d.utcoffset() or TD(0); return wall_us(d) - ((o.days*86400+o.seconds)*10**6+o.microseconds)
def dim(y,m): return calendar.monthrange(y,m)[1]
def fullmonth_arm(a,b):
    # mechanism classifier from inputs only (a<=b wall clock values)
    g=lambda x:(getattr(x,"hour",0),getattr(x,"minute",0),getattr(x,"second",0),getattr(x,"microsecond",0)); borrow = g(b) < g(a)
    dd = b.day-a.day-(1 if borrow else 0)
    if dd>=0: return False
    py_,pm = (b.year-1,12) if b.month==1 else (b.year,b.month-1)
    return dd == dim(b.year,b.month)-dim(py_,pm)
stats=collections.Counter(); ex={}
def comps(iv): return dict(years=iv.years,months=iv.months,weeks=iv.weeks,days=iv.remaining_days,hours=iv.hours,minutes=iv.minutes,seconds=iv.remaining_seconds,microseconds=iv.microseconds)
def check(a,b,kind):
    stats["n "+kind]+=1
    iv=b-a
    c=comps(iv); bad=[]
    if not (c['years']>=0 and 0<=c['months']<=11 and 0<=c['weeks']*7+c['days']<=30 and 0<=c['hours']<=23 and 0<=c['minutes']<=59 and 0<=c['seconds']<=59 and 0<=c['microseconds']<10**6): bad.append("range")
    try:
        r1=a+iv; r2=a.add(**(c if hasattr(a,"hour") else {k:c[k] for k in ("years","months","weeks","days")}))
        if (r1.year,r1.month,r1.day)!=(b.year,b.month,b.day) or (hasattr(a,"hour") and wall_us(r1)!=wall_us(b)): bad.append("rebuild+")
        if (r2.year,r2.month,r2.day)!=(b.year,b.month,b.day) or (hasattr(a,"hour") and wall_us(r2)!=wall_us(b)): bad.append("rebuild-add")
    except Exception as e: bad.append("exc "+type(e).__name__)
    rv=a-b; cr=comps(rv)
    if any(cr[k]!=-c[k] for k in c): bad.append("negation")
    if iv.in_months()!=12*c['years']+c['months']: bad.append("in_months")
    if bad:
        arm = fullmonth_arm(a,b)
        big = abs((dt.date(b.year,b.month,b.day)-dt.date(a.year,a.month,a.day)).days)*86400>=2**33-86400
        k=kind+" "+",".join(bad)+(" [fullmonth-arm]" if arm else " [bigspan]" if big else " [OTHER]"); stats["BAD "+k]+=1; ex.setdefault(k,(str(a),str(b),c))
def rnd_naive():
    y=random.choice([1999,2000,2019,2020,2100,random.randrange(2,9990)]); m=random.randrange(1,13); d=random.choice([1,2,27,28,29,30,31,random.randrange(1,29)]); d=min(d,dim(y,m))
    return (y,m,d,random.choice([0,23,random.randrange(24)]),random.choice([0,59,random.randrange(60)]),random.choice([0,59,random.randrange(60)]),random.choice([0,999999,random.randrange(10**6)]))
for i in range(60000):
    A=rnd_naive()
    if random.random()<0.7:
        n=dt.datetime(*A)+TD(days=random.choice([0,1,27,28,29,30,31,32,58,59,60,61,365,366,random.randrange(0,800)]),seconds=random.randrange(-86399,86400),microseconds=random.randrange(-10**6,10**6)) if A[0]<9990 else dt.datetime(*A)
        B=(n.year,n.month,n.day,n.hour,n.minute,n.second,n.microsecond)
    else: B=rnd_naive()
    if B<A: A,B=B,A
    if B[0]>9990: continue
    check(pendulum.naive(*A),pendulum.naive(*B),"naive")
    check(pendulum.datetime(*A),pendulum.datetime(*B),"utc")
    check(pendulum.datetime(*A,tz=5.5),pendulum.datetime(*B,tz=5.5),"fixed")
    check(pendulum.date(*A[:3]),pendulum.date(*B[:3]),"date")
    # backends direct
    for mk in (lambda t: dt.datetime(*t), lambda t: dt.datetime(*t,tzinfo=dt.timezone.utc), lambda t: dt.date(*t[:3])):
        p=py.precise_diff(mk(A),mk(B)); r=rs.precise_diff(mk(A),mk(B)); stats["n backends"]+=1
        if tuple(p)!=(r.years,r.months,r.days,r.hours,r.minutes,r.seconds,r.microseconds,r.total_days): stats["BAD backends"]+=1; ex.setdefault("backends",(A,B,tuple(p),repr(r)))
for k,v in sorted(stats.items()): print(k,v)
for k,v in ex.items(): print(k,v)
