import pendulum, datetime as dt, calendar, random, time
from pendulum import _helpers as py
import pendulum._pendulum as rs
t0=time.time()
bad=0
for y in range(1,10000):
    for m in (py,rs):
        if m.is_leap(y)!=calendar.isleap(y): bad+=1; print("leap",y)
        long = dt.date(y,12,28).isocalendar()[1]==53
        if m.is_long_year(y)!=long: bad+=1; print("long",y,m)
        if m.days_in_year(y)!=(366 if calendar.isleap(y) else 365): bad+=1
print("years", bad, time.time()-t0)
d = dt.date(1,1,1); n=0
one=dt.timedelta(days=1)
while True:
    w = d.isoweekday()
    if py.week_day(d.year,d.month,d.day)!=w or rs.week_day(d.year,d.month,d.day)!=w: bad+=1; print("wd",d)
    n+=1
    if d==dt.date.max: break
    d+=one
    if n>400000: break
print("dates", n, bad, time.time()-t0)
random.seed(5)
E0 = dt.datetime(1970,1,1)
for i in range(200000):
    ts = random.choice([random.randrange(-62135596800, 253402300800), random.randrange(-10**6,10**6)*86400+random.choice([-1,0,1])])
    off = random.choice([0, random.randrange(-86399,86400)])
    if not (-62135596800 <= ts+off < 253402300800): continue
    e = E0+dt.timedelta(seconds=ts+off)
    exp=(e.year,e.month,e.day,e.hour,e.minute,e.second,7)
    a = py.local_time(ts,off,7); b = rs.local_time(ts,off,7)
    if tuple(a)!=exp or tuple(b)!=exp:
        bad+=1
        if bad<10: print("lt",ts,off,a,b,exp)
print("local_time", bad, time.time()-t0)
print(py.local_time(-0.5,0,0), rs.local_time(-0.5,0,0))
