import pendulum, datetime as dt, operator as op
from pendulum import Duration
D = Duration(days=3, hours=5, microseconds=7); T = dt.timedelta(hours=7, microseconds=3)
def tr(f,*a):
    try:
        r=f(*a); return type(r).__name__, (r.total_seconds() if isinstance(r,dt.timedelta) else r)
    except Exception as e: return type(e).__name__, str(e)[:60]
nat = dt.timedelta(days=3,hours=5,microseconds=7)
for name,f in [("add",op.add),("sub",op.sub),("floordiv",op.floordiv),("truediv",op.truediv),("mod",op.mod),("divmod",divmod)]:
    print(name, "D,T", tr(f,D,T), "T,D", tr(f,T,D), "D,D2", tr(f,D,Duration(hours=7,microseconds=3)), "nat", tr(f,nat,T), tr(f,T,nat))
for name,f in [("mul",op.mul),("floordiv",op.floordiv),("truediv",op.truediv)]:
    for k in (3,-3,2.5,-0.1):
        print(name,k, tr(f,D,k), tr(f,nat,k), tr(f,k,D) if name=="mul" else "")
print(tr(op.neg,D), tr(abs,D), tr(abs,-D), type(abs(-D)), D==nat, hash(D)==hash(nat), D<T, D>T)
Y = Duration(years=2, months=3, days=1)
print(repr(-Y), repr(Y*2), repr(Y*-3), repr(2*Y), repr(Y//2), repr(Y/2), repr(abs(-Y)))
# negative float stuff
N = Duration(seconds=-1.5)
print(repr(N), N.total_seconds(), repr(-N), repr(N*2), repr(N*2.5), (N*2.5).total_seconds(), (dt.timedelta(seconds=-1.5)*2.5).total_seconds())
print(repr(Duration(microseconds=5)/2), repr(Duration(microseconds=3)/2), dt.timedelta(microseconds=5)/2,dt.timedelta(microseconds=3)/2)
