import pendulum, datetime as dt, random, collections, calendar
from tzo import *
from dateutil.relativedelta import relativedelta
random.seed(5)
N0=dt.datetime(1970,1,1)
def wall_us(d):
    x = dt.datetime(d.year,d.month,d.day,d.hour,d.minute,d.second,d.microsecond)-N0
    return (x.days*86400+x.seconds)*10**6+x.microseconds
def inst(d): return wall_us(d) - int(d.utcoffset().total_seconds())*10**6
def model_wall(d, Y,M,W,D,h,m,s,us):
    tot = d.year*12 + (d.month-1) + Y*12 + M
    y, mo = divmod(tot,12); mo+=1
    if not 1<=y<=9999: return None
    day = min(d.day, calendar.monthrange(y,mo)[1])
    base = dt.datetime(y,mo,day,d.hour,d.minute,d.second,d.microsecond)
    try: return base + dt.timedelta(weeks=W,days=D,hours=h,minutes=m,seconds=s,microseconds=us)
    except OverflowError: return None
def norm(z, w):  # C02 oracle default fold=1
    wu = wall_us(w); c = z.wall_candidates(wu)
    if len(c)>=1: return c[-1], wu
    g = z.gap_for(wu)
    gl=(g[2]-g[1])*10**6
    return wu+gl-g[2]*10**6, wu+gl
zones=["Europe/Paris","America/Sao_Paulo","Australia/Lord_Howe","Pacific/Apia","America/Havana","UTC","Asia/Tehran"]
Zs={k:Z(k) for k in zones}
stats=collections.Counter(); ex={}
for i in range(60000):
    key=random.choice(zones); z=Zs[key]
    if random.random()<0.5 and z.trans:
        t,ob,oa=random.choice([x for x in z.trans if -4*10**9<x[0]<4*10**9])
        u=(t+random.choice([-86400*31,-86400*30,-86400*29,-86400*28, -86400,-86400*7,-86400*365,-86400*366, 86400, 0])+random.choice([ob,oa,0])+random.randrange(-7200,7200))*10**6
    else: u=random.randrange(-6*10**9,6*10**9)*10**6+random.randrange(10**6)
    x=pendulum.from_timestamp(0,"UTC").add(microseconds=u).in_tz(key)
    def r(n): return random.choice([0,0,0,random.randrange(-n,n+1)])
    kw=dict(years=r(3),months=random.choice([0,1,-1,12,-12,13,-13,random.randrange(-30,30)]),weeks=r(5),days=random.choice([0,1,-1,28,29,30,31,-31,random.randrange(-400,400)]),hours=r(50),minutes=r(100),seconds=r(100),microseconds=r(2*10**6))
    if not any([kw['years'],kw['months'],kw['weeks'],kw['days']]): kw['days']=1
    mw = model_wall(x, kw['years'],kw['months'],kw['weeks'],kw['days'],kw['hours'],kw['minutes'],kw['seconds'],kw['microseconds'])
    try: got=x.add(**kw); e=None
    except Exception as ee: got=None; e=type(ee).__name__
    stats["n"]+=1
    if mw is None or not (2<=mw.year<=9998):
        stats["skip-range"]+=1; continue
    ei, ew = norm(z, mw)
    if got is None or inst(got)!=ei or wall_us(got)!=ew or got.timezone_name!=key:
        stats["BAD add"]+=1; ex.setdefault("add",(str(x),kw,str(got),e,str(mw)))
    # relativedelta cross-check of model
    rd = dt.datetime(x.year,x.month,x.day,x.hour,x.minute,x.second,x.microsecond)+relativedelta(**kw)
    if rd!=mw: stats["MODEL-vs-relativedelta"]+=1; ex.setdefault("rd",(str(x),kw,str(rd),str(mw)))
    sub = x.subtract(**{k:-v for k,v in kw.items()})
    if inst(sub)!=inst(got): stats["BAD add-neg-vs-subtract"]+=1
    # Duration operator paths
    try:
        D = pendulum.duration(**kw)
    except Exception: continue
    a = x + D; b = x - (-D); c = x.add(**kw)
    if inst(a)!=inst(c): stats["BAD plusD"]+=1; ex.setdefault("plusD",(str(x),kw,str(a),str(c)))
    m1 = x - D; m2 = x + (-D); m3 = x.subtract(**kw)
    if not (inst(m1)==inst(m2)==inst(m3)):
        k="BAD minusD "+("m2!=m3 " if inst(m2)!=inst(m3) else "")+("m1!=m3" if inst(m1)!=inst(m3) else ""); stats[k]+=1; ex.setdefault(k,(str(x),kw,repr(D),str(m1),str(m2),str(m3)))
for k,v in sorted(stats.items()): print(k,v)
for k,v in ex.items(): print(k,v)
