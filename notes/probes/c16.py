import pendulum, datetime as dt, calendar
bad=0;n=0;ex=[]
def nth_oracle(first, last, wd, n):
    d = first
    while d.weekday()!=wd: d+=dt.timedelta(days=1)
    d += dt.timedelta(days=7*(n-1))
    return d if d<=last else None
for year in (2019,2020,2021,2024):
  for month in range(1,13):
    for day in (1,15,28):
      D = pendulum.date(year,month,day); T = pendulum.datetime(year,month,day,13,14,15,tz="America/Sao_Paulo")
      for obj in (D,T):
        for wd in range(7):
          for unit in ("month","quarter","year"):
            if unit=="month": first=dt.date(year,month,1); last=dt.date(year,month,calendar.monthrange(year,month)[1])
            elif unit=="quarter":
                q=(month-1)//3; first=dt.date(year,q*3+1,1); last=dt.date(year,q*3+3,calendar.monthrange(year,q*3+3)[1])
            else: first=dt.date(year,1,1); last=dt.date(year,12,31)
            for nth in list(range(1,8))+[13,14,15,52,53,54]:
                exp = nth_oracle(first,last,wd,nth); n+=1
                try:
                    r = obj.nth_of(unit,nth,pendulum.WeekDay(wd)); got=(r.year,r.month,r.day)
                except pendulum.exceptions.PendulumException: got=None
                except Exception as e: got="EXC "+type(e).__name__
                e2 = (exp.year,exp.month,exp.day) if exp else None
                if got!=e2:
                    bad+=1
                    if len(ex)<10: ex.append((type(obj).__name__, str(obj), unit,nth,wd,got,e2))
print(n,bad); [print(e) for e in ex]
# next/previous on skipped midnight
x = pendulum.datetime(2013,10,14,13,0,tz="America/Sao_Paulo")
print(x.next(pendulum.SUNDAY), x.next(pendulum.SUNDAY, keep_time=True), pendulum.datetime(2013,10,21,13,tz="America/Sao_Paulo").previous(pendulum.SUNDAY))
print(pendulum.datetime(2013,10,14,15,tz="UTC").in_tz("America/Sao_Paulo").next(pendulum.SUNDAY))
print(pendulum.datetime(2013,10,1,15,tz="UTC").in_tz("America/Sao_Paulo").last_of("month", pendulum.SUNDAY), pendulum.datetime(2013,10,1,15,tz="UTC").in_tz("America/Sao_Paulo").nth_of("month",3, pendulum.SUNDAY))
