import pendulum, os, collections, re, random
random.seed(4)
locs = sorted(d for d in os.listdir("/repo/src/pendulum/locales") if os.path.isdir("/repo/src/pendulum/locales/"+d) and not d.startswith("_"))
from pendulum.locales.locale import Locale
def model(iv):
    y,mo,w,rd,h,mi,s = iv.years,iv.months,iv.weeks,iv.remaining_days,iv.hours,iv.minutes,iv.remaining_seconds
    d=w*7+rd
    if y>0: return "year", y+(1 if mo>6 else 0)
    if mo==11 and d>15: return "year",1
    if mo>0: return "month", mo+(1 if d>=27 else 0)
    if w>0: return "week", w+(1 if rd>3 else 0)
    if rd>0: return "day", rd+(1 if h>=22 else 0)
    if h>0: return "hour",h
    if mi>0: return "minute",mi
    if 10<s<=59: return "second",s
    return "few", s
stats=collections.Counter(); ex={}
base=pendulum.datetime(2021,3,14,15,9,26)
def expected(loc, unit, count, future, is_now, absolute):
    L=Locale.load(loc)
    if unit=="few":
        few=L.get("custom.units.few_second")
        if few is not None:
            if absolute: return few
            key="custom."+(("from_now" if future else "ago") if is_now else ("after" if future else "before"))
            return L.get(key).format(few)
        unit="second"
    if count==0: count=1
    if absolute:
        return L.get(f"translations.units.{unit}.{L.plural(count)}").format(count)
    if is_now:
        return L.get(f"translations.relative.{unit}.{'future' if future else 'past'}.{L.plural(count)}").format(count)
    tr=L.get(f"custom.units_relative.{unit}.{'future' if future else 'past'}")
    time = tr[L.plural(count)].format(count) if tr else L.get(f"translations.units.{unit}.{L.plural(count)}").format(count)
    return L.get("custom."+("after" if future else "before")).format(time)
for it in range(40000):
    loc=random.choice(locs)
    kw=dict(years=random.choice([0,0,0,1,2,10]),months=random.choice([0,0,1,6,7,11]),days=random.choice([0,0,1,3,4,15,16,26,27,30]),hours=random.choice([0,0,1,21,22,23]),minutes=random.choice([0,0,1,59]),seconds=random.choice([0,1,10,11,59]))
    sign=random.choice([1,-1])
    other=base.add(**{k:v*sign for k,v in kw.items()})
    is_now=random.choice([True,False]); absolute=random.choice([True,False])
    iv=base.diff(other)
    unit,count=model(iv); future = base>other   # instance later than reference
    stats["n"]+=1
    try:
        got=pendulum.format_diff(iv,is_now,absolute,loc)
    except Exception as e:
        stats["EXC "+loc+" "+type(e).__name__]+=1; continue
    try: exp=expected(loc,unit,count,future,is_now,absolute)
    except Exception as e: stats["ORACLE-EXC "+loc+" "+type(e).__name__+str(e)[:30]]+=1; continue
    if got!=exp: stats["BAD "+loc]+=1; ex.setdefault(loc,(kw,sign,is_now,absolute,got,exp,unit,count))
    # within one unit bound
    secs=abs(iv.total_seconds()); ulen=dict(year=365.25*86400,month=30.44*86400,week=7*86400,day=86400,hour=3600,minute=60,second=1,few=1)[unit]
    if unit!="few" and abs(count*ulen-secs)>ulen*1.02+ (86400*3 if unit in("month","year") else 0): stats["BOUND "+unit]+=1; ex.setdefault("bound"+unit,(kw,unit,count,secs/ulen))
for k,v in sorted(stats.items()): print(k,v)
for k,v in ex.items(): print(k,v)
