import pendulum, datetime as dt, random, collections, itertools
random.seed(19)
N0=dt.datetime(1970,1,1); TD=dt.timedelta
def wall_us(d):
    x = dt.datetime(d.year,d.month,d.day,d.hour,d.minute,d.second,d.microsecond)-N0
    return (x.days*86400+x.seconds)*10**6+x.microseconds
def inst(d):
    if not hasattr(d,"hour"): return d.toordinal()
    o=d.utcoffset() or TD(0); return wall_us(d) - ((o.days*86400+o.seconds)*10**6+o.microseconds)
stats=collections.Counter(); ex={}
zones=["UTC","Europe/Paris","America/Sao_Paulo","Australia/Lord_Howe","Pacific/Apia"]
units=["years","months","weeks","days","hours","minutes","seconds","microseconds"]
for it in range(6000):
    isdate=random.random()<0.3
    y=random.randrange(1990,2030); m=random.randrange(1,13); d=random.choice([1,15,28,29,30,31]); 
    import calendar; d=min(d,calendar.monthrange(y,m)[1])
    if isdate:
        a=pendulum.date(y,m,d); unit=random.choice(units[:4])
    else:
        a=pendulum.datetime(y,m,d,random.randrange(24),random.randrange(60),random.randrange(60),random.choice([0,999999]),tz=random.choice(zones)); unit=random.choice(units)
    n=random.randrange(1,13); steps=random.choice([0,1,2,5,50,300])
    span={unit:n*steps}
    b=a.add(**span)
    if random.random()<0.5 and not isdate:
        b=b.add(**{random.choice(["seconds","hours","days"]):random.randrange(0,3)})   # end not exactly reachable
    elif random.random()<0.5 and isdate: b=b.add(days=random.randrange(0,3))
    mode=random.choice(["fwd","inv","abs-inv","abs-fwd"])
    if mode=="fwd": iv=pendulum.interval(a,b); s,e,meth=a,b,"add"
    elif mode=="inv": iv=pendulum.interval(b,a); s,e,meth=b,a,"subtract"
    elif mode=="abs-inv": iv=pendulum.interval(b,a,absolute=True); s,e,meth=a,b,"add"
    else: iv=pendulum.interval(a,b,absolute=True); s,e,meth=a,b,"add"
    if inst(a)==inst(b): continue
    if inst(b)<inst(a): continue
    exp=[]; k=0
    while True:
        x=getattr(s,meth)(**{unit:k*n})
        if (meth=="add" and inst(x)>inst(e)) or (meth=="subtract" and inst(x)<inst(e)): break
        exp.append(x); k+=1
        if k>5000: break
    got=list(itertools.islice(iv.range(unit,n), len(exp)+3))
    stats["n"]+=1
    if [inst(x) for x in got]!=[inst(x) for x in exp]:
        kx=f"BAD seq {mode} {unit} {'date' if isdate else 'dt'}"; stats[kx]+=1; ex.setdefault(kx,(str(a),str(b),n,[str(x) for x in got[:4]],[str(x) for x in exp[:4]],len(got),len(exp)))
    if (iv.start, iv.end)!=(s,e): stats["BAD endpoints "+mode]+=1
    for x in got:
        if not (min(inst(s),inst(e))<=inst(x)<=max(inst(s),inst(e))): stats["BAD outside"]+=1
    for x in random.sample(got,min(3,len(got))):
        if (x in iv) != (iv.start<=x<=iv.end): stats["BAD contains"]+=1
for k,v in sorted(stats.items()): print(k,v,ex.get(k,""))
