import pendulum, random, collections
from fractions import Fraction as F
from pendulum.parsing import iso8601 as pyp
import pendulum._pendulum as rs
random.seed(13)
stats=collections.Counter(); ex={}
U=dict(W=7*86400,D=86400,H=3600,M=60,S=1)
def gen():
    week = random.random()<0.15
    parts=[]; frac_unit=None
    if week: units=["W"]
    else:
        date_units=[u for u in "YMD" if random.random()<0.5]
        time_units=[u for u in "HMS" if random.random()<0.5]
        units=date_units+(["T"]+time_units if time_units else [])
        if not [u for u in units if u!="T"]: units=["D"]
    real=[i for i,u in enumerate(units) if u!="T"]
    last=real[-1]
    s="P"; years=months=0; rest=F(0); in_time=False
    nd=random.choice([1,1,2,3,5,9])
    for i,u in enumerate(units):
        if u=="T": s+="T"; in_time=True; continue
        n=random.randrange(10**(nd-1) if nd>1 else 0,10**nd)
        txt=str(n); val=F(n)
        is_ym = (u=="Y") or (u=="M" and not in_time)
        if i==last and not is_ym and random.random()<0.6:
            k=random.choice([1,1,2,3,6,7,9]); digs="".join(random.choice("0123456789") for _ in range(k))
            if random.random()<0.2: digs=digs[:-1]+"5"
            txt+=random.choice(".,")+digs; val+=F(int(digs),10**k); frac_unit=(u,k)
        s+=txt+u
        if u=="Y": years=n
        elif is_ym: months=n
        else: rest+=val*U[u]
    return s,years,months,rest,frac_unit,nd
for i in range(60000):
    s,y,m,rest,fu,nd=gen()
    exp_us=rest*10**6
    for bn in ("rs","py"):
        stats["n "+bn]+=1
        try:
            if bn=="rs":
                r=rs.parse_iso8601(s); gy,gm=r.years,r.months
                got=F((((r.weeks*7+r.days)*24+r.hours)*60+r.minutes)*60+r.seconds)*10**6+r.microseconds
            else:
                r=pyp.parse_iso8601(s); gy,gm=r.years,r.months
                import datetime as dt
                td=dt.timedelta
                got=F((td.days.__get__(r)*86400+td.seconds.__get__(r))*10**6+td.microseconds.__get__(r)) - (gy*365+gm*30)*86400*10**6
        except Exception as e:
            k=f"EXC {bn} {type(e).__name__} frac={fu} nd={nd}"; stats[k]+=1; ex.setdefault(k,(s,str(e)[:60])); continue
        if (gy,gm)!=(y,m): stats[f"BAD {bn} ym"]+=1; ex.setdefault(bn+"ym",(s,gy,gm))
        err=abs(got-exp_us)
        if err>F(1,2):
            k=f"BAD {bn} value frac={fu} err={'<1us' if err<1 else '<1s' if err<10**6 else '>=1s'}"; stats[k]+=1; ex.setdefault(k,(s,float(got),float(exp_us)))
for k,v in sorted(stats.items()): print(k,v,ex.get(k,""))
