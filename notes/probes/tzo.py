# throw-away prototype of the tz oracle
import struct, zoneinfo, datetime as dt, importlib.resources as r, os, bisect
UTC = dt.timezone.utc
EPOCH = dt.datetime(1970,1,1,tzinfo=UTC)
def find(key):
    for p in zoneinfo.TZPATH:
        f = os.path.join(p, key)
        if os.path.isfile(f): return open(f,'rb').read()
    pk, _, nm = key.rpartition('/')
    pkg = 'tzdata.zoneinfo' + ('.'+pk.replace('/','.') if pk else '')
    return r.files(pkg).joinpath(nm).read_bytes()
def parse(b):
    def hdr(o): return struct.unpack(">6l", b[o+20:o+44])
    isutc,isstd,leap,timecnt,typecnt,charcnt = hdr(0)
    o = 44 + timecnt*4 + timecnt + typecnt*6 + charcnt + leap*8 + isstd + isutc
    isutc,isstd,leap,timecnt,typecnt,charcnt = hdr(o)
    o += 44
    times = struct.unpack(">%dq"%timecnt, b[o:o+8*timecnt]); o+=8*timecnt
    idx = b[o:o+timecnt]; o+=timecnt
    tt = [struct.unpack(">lBB", b[o+6*i:o+6*i+6]) for i in range(typecnt)]; o+=6*typecnt
    return times, idx, tt
def us_to_dt(us): return EPOCH + dt.timedelta(microseconds=us)
class Z:
    def __init__(self, key):
        self.key = key; self.zi = zoneinfo.ZoneInfo(key)
        times, idx, tt = parse(find(key))
        self.trans=[]  # (utc_s, off_before, off_after)
        # offset before first transition: first non-dst ttinfo or tt[0]
        def off_at_s(s):
            return int(us_to_dt(s*10**6).astimezone(self.zi).utcoffset().total_seconds())
        for t,i in zip(times, idx):
            if t < -62135596800+86400*2 or t > 253402300799-86400*2: continue
            ob = off_at_s(t-1); oa = tt[i][0]
            if ob!=oa: self.trans.append((t,ob,oa))
        # footer scan 2037..2045 + sample years
        last = times[-1] if times else 0
        def scan(y0,y1):
            s = int((dt.datetime(y0,1,1,tzinfo=UTC)-EPOCH).total_seconds()); e = int((dt.datetime(y1,1,1,tzinfo=UTC)-EPOCH).total_seconds())
            s = max(s, last+1)
            step=43200; prev=off_at_s(s); t=s
            while t<e:
                n=t+step; o=off_at_s(n)
                if o!=prev:
                    lo,hi=t,n
                    while hi-lo>1:
                        mid=(lo+hi)//2
                        if off_at_s(mid)==prev: lo=mid
                        else: hi=mid
                    self.trans.append((hi,prev,o))
                prev=o; t=n
        scan(2037,2046)
        for y in (2100,2400,5000,9997): scan(y,y+1)
        self.trans.sort()
        self.ts=[t[0] for t in self.trans]
    def off_at(self, us):
        return int(us_to_dt(us).astimezone(self.zi).utcoffset().total_seconds())
    def offsets_near(self, s):
        i = bisect.bisect_left(self.ts, s)
        out=set()
        for t in self.trans[max(0,i-3):i+3]: out.add(t[1]); out.add(t[2])
        if not out: out.add(self.off_at(s*10**6))
        out.add(self.off_at(s*10**6))
        return out
    def wall_candidates(self, wall_us):
        # wall_us: naive wall fields as us since epoch
        c=[]
        for o in self.offsets_near(wall_us//10**6):
            u = wall_us - o*10**6
            try:
                if self.off_at(u)==o: c.append(u)
            except OverflowError: pass
        return sorted(set(c))
    def gap_for(self, wall_us):
        # find transition with wall in [T+ob, T+oa)
        s = wall_us//10**6
        i = bisect.bisect_left(self.ts, s - 2*86400)
        for t,ob,oa in self.trans[i:i+8]:
            if oa>ob and (t+ob)*10**6 <= wall_us < (t+oa)*10**6: return (t,ob,oa)
        return None
