import pendulum, datetime as dt, random, collections, zoneinfo
from tzo import *
random.seed(8)
N0=dt.datetime(1970,1,1)
TD=dt.timedelta
def wall_us(d):
    x = dt.datetime(d.year,d.month,d.day,d.hour,d.minute,d.second,d.microsecond)-N0
    return (x.days*86400+x.seconds)*10**6+x.microseconds
def inst(d):
    o=d.utcoffset() or TD(0)
    return wall_us(d) - ((o.days*86400+o.seconds)*10**6+o.microseconds)
def tdus(t): return (TD.days.__get__(t)*86400+TD.seconds.__get__(t))*10**6+TD.microseconds.__get__(t)
zones=["Europe/Paris","America/Sao_Paulo","Australia/Lord_Howe","Pacific/Apia","America/Havana","UTC","Asia/Tehran","Africa/Monrovia","Europe/Dublin"]
Zs={k:Z(k) for k in zones}
stats=collections.Counter(); ex={}
def mk(key,u,how):
    if how=="conv": return pendulum.from_timestamp(0,"UTC").add(microseconds=u).in_tz(key)
    n=us_to_dt(u).astimezone(zoneinfo.ZoneInfo(key))
    if how=="ctor": return pendulum.datetime(n.year,n.month,n.day,n.hour,n.minute,n.second,n.microsecond,tz=key,fold=n.fold)
    if how=="zi": return pendulum.instance(n)
    if how=="native": return n
def pick(key):
    z=Zs[key]
    if z.trans and random.random()<0.8:
        t,ob,oa=random.choice(z.trans); g=abs(oa-ob)
        return (t+random.choice([-g-1,-g,-1,0,1,g-1,g,g+1,-g//2,g//2, random.randrange(-10**5,10**5)]))*10**6+random.choice([0,1,999999,random.randrange(10**6)])
    return random.randrange(-6*10**10,2*10**11)*10**6+random.randrange(10**6)
for i in range(80000):
    k1=random.choice(zones); k2=random.choice([k1,k1,random.choice(zones)])
    u1=pick(k1); u2=random.choice([pick(k2), u1+random.randrange(-10**4,10**4)*10**6+random.randrange(10**6)])
    try:
        a=mk(k1,u1,random.choice(["conv","ctor","zi"])); h2=random.choice(["conv","ctor","zi","native"]); b=mk(k2,u2,h2)
    except (OverflowError,ValueError) as e: stats["skip"]+=1; continue
    assert inst(a)==u1 and inst(b)==u2
    exp=u2-u1; tol=0 if abs(exp)<2**33*10**6 else 64
    stats["n"]+=1
    for name,iv in [("sub",lambda: b-a if h2!="native" else None),("rsub/native", lambda: b-a if h2=="native" else None),("diffF",lambda: a.diff(b,False)),("interval",lambda: pendulum.interval(a,b) if h2!="native" else None)]:
        try: r=iv()
        except Exception as e: stats["EXC "+name+" "+type(e).__name__]+=1; ex.setdefault("EXC"+name,(str(a),repr(b),str(e))); continue
        if r is None: continue
        if abs(tdus(r)-exp)>tol: stats["BAD "+name]+=1; ex.setdefault(name,(str(a),a.fold,str(b),b.fold,tdus(r)-exp))
        if tol==0:
            t=lambda q: (abs(exp)//q)*(1 if exp>=0 else -1)
            if (r.in_seconds(),r.in_minutes(),r.in_hours())!=(t(10**6),t(6*10**7),t(36*10**8)): stats["BAD in_* "+name]+=1; ex.setdefault("in"+name,(str(a),str(b),exp,r.in_seconds(),r.in_minutes(),r.in_hours()))
    r=a.diff(b); 
    if abs(tdus(r)-abs(exp))>tol: stats["BAD diff-abs"]+=1
    if h2!="native":
        r=abs(b-a)
        if abs(tdus(r)-abs(exp))>tol: stats["BAD abs()"]+=1
        r=a-b
        if abs(tdus(r)+exp)>tol: stats["BAD swap"]+=1
        r=pendulum.interval(a,b,absolute=True)
        if abs(tdus(r)-abs(exp))>tol: stats["BAD absolute"]+=1
    else:
        r = a - b   # pendulum - native
        if abs(tdus(r)+exp)>tol: stats["BAD pend-native"]+=1; ex.setdefault("pn",(str(a),repr(b),tdus(r),-exp))
for k,v in sorted(stats.items()): print(k,v)
for k,v in ex.items(): print(k,v)
