# throw-away feasibility probe: pass-through wrappers on the planned hook points
import functools, collections, atexit, json, sys
COUNTS = collections.Counter()
def wrap(owner, name, static=False, cls=False):
    raw = owner.__dict__[name] if isinstance(owner, type) else getattr(owner, name)
    kind = None
    f = raw
    if isinstance(raw, staticmethod): kind="static"; f = raw.__func__
    elif isinstance(raw, classmethod): kind="class"; f = raw.__func__
    elif isinstance(raw, property):
        g = raw.fget
        @functools.wraps(g)
        def pg(self): COUNTS[f"{owner.__name__}.{name}"]+=1; return g(self)
        setattr(owner, name, property(pg, raw.fset, raw.fdel)); return
    @functools.wraps(f)
    def w(*a, **k):
        COUNTS[f"{getattr(owner,'__name__',owner)}.{name}"]+=1
        return f(*a, **k)
    if kind=="static" or (name=="__new__" and isinstance(owner,type)): w2 = staticmethod(w)
    elif kind=="class": w2 = classmethod(w)
    else: w2 = w
    setattr(owner, name, w2)
def install():
    import pendulum, pendulum.helpers, pendulum.interval, pendulum.parsing, pendulum.parser, pendulum.formatting.formatter as ff, pendulum.formatting.difference_formatter as df
    from pendulum.tz.timezone import Timezone, FixedTimezone
    from pendulum.locales.locale import Locale
    DT, D, T, Du, Iv = pendulum.DateTime, pendulum.Date, pendulum.Time, pendulum.Duration, pendulum.Interval
    for n in ["convert","datetime"]: wrap(Timezone,n); wrap(FixedTimezone,n)
    for n in ["create","instance","now","fromtimestamp","utcfromtimestamp","combine","strptime","fromordinal"]: wrap(DT,n)
    for n in ["set","on","at","replace","in_timezone","astimezone","add","subtract","_add_timedelta_","_subtract_timedelta","diff","diff_for_humans","start_of","end_of","next","previous","first_of","last_of","nth_of","__sub__","__rsub__","int_timestamp","__reduce_ex__","__deepcopy__","date","time","naive","average","closest","farthest"]: wrap(DT,n)
    for n in ["add","subtract","_add_timedelta","_subtract_timedelta","__add__","__sub__","diff","start_of","end_of","next","previous","first_of","last_of","nth_of","replace"]: wrap(D,n)
    for n in ["add","subtract","add_timedelta","subtract_timedelta","__add__","__sub__","__rsub__","diff","closest","farthest","replace"]: wrap(T,n)
    wrap(Du,"__new__"); wrap(sys.modules["pendulum.duration"].AbsoluteDuration,"__new__")
    for n in ["__add__","__sub__","__neg__","__mul__","__floordiv__","__truediv__","__mod__","__divmod__","__deepcopy__","in_words","total_minutes","in_seconds"]: wrap(Du,n)
    wrap(Iv,"__new__"); wrap(Iv,"__init__"); wrap(Iv,"range"); wrap(Iv,"__contains__"); wrap(Iv,"__iter__"); wrap(Iv,"in_words")
    for m in (sys.modules["pendulum.helpers"], sys.modules["pendulum.interval"], sys.modules["pendulum.datetime"], sys.modules["pendulum.date"]):
        for n in ["precise_diff","add_duration"]:
            if hasattr(m,n): wrap(m,n)
    for n in ["is_leap","is_long_year","week_day","days_in_year","local_time","format_diff"]: wrap(sys.modules["pendulum.helpers"],n)
    P=sys.modules["pendulum.parsing"]; Q=sys.modules["pendulum.parser"]
    wrap(P,"parse_iso8601"); wrap(P,"parse"); wrap(P,"_parse_iso8601_interval"); wrap(Q,"base_parse"); wrap(Q,"_parse"); wrap(Q,"parse")
    pendulum.parse = Q.parse
    for n in ["format","_format_token","parse","_check_parsed"]: wrap(ff.Formatter,n)
    wrap(df.DifferenceFormatter,"format")
    for n in ["get","translation","plural","ordinalize"]: wrap(Locale,n)
    for n in ["datetime","instance","from_format","from_timestamp","interval","duration"]: wrap(pendulum,n)
def pytest_configure(config):
    install()
def pytest_unconfigure(config):
    json.dump(COUNTS, open("/tmp/scratch/plug/counts.json","w"), indent=0)
