import pendulum, datetime as dt, zoneinfo, random, collections, operator as op
from tzo import *
random.seed(9)
zones=["Europe/Paris","America/Sao_Paulo","Australia/Lord_Howe","Pacific/Apia","UTC","Africa/Monrovia","Europe/Dublin","America/St_Johns"]
Zs={k:Z(k) for k in zones}
N0=dt.datetime(1970,1,1); TD=dt.timedelta
def wall_us(d):
    x = dt.datetime(d.year,d.month,d.day,d.hour,d.minute,d.second,d.microsecond)-N0
    return (x.days*86400+x.seconds)*10**6+x.microseconds
def inst(d):
    o=d.utcoffset(); return wall_us(d) - ((o.days*86400+o.seconds)*10**6+o.microseconds)
bad=collections.Counter(); ex={}
def pick(key):
    z=Zs[key]
    if z.trans and random.random()<0.85:
        t,ob,oa=random.choice(z.trans); g=abs(oa-ob)
        return (t+random.choice([-g-1,-g,-1,0,1,g-1,g,g+1,-g//2,g//2]))*10**6+random.choice([0,1,999999])
    return random.randrange(-6*10**9,6*10**9)*10**6+random.randrange(10**6)
acc=[("isoformat",lambda d:d.isoformat()),("iso_ms",lambda d:d.isoformat(" ","milliseconds")),("strftime",lambda d:d.strftime("%Y-%m-%d %H:%M:%S.%f %z %Z %j %a %A %U %W %G %V %u %p %I %y %b %B %c %x %X")),("timetuple",lambda d:d.timetuple()),("utctimetuple",lambda d:d.utctimetuple()),("toordinal",lambda d:d.toordinal()),("weekday",lambda d:d.weekday()),("isoweekday",lambda d:d.isoweekday()),("isocalendar",lambda d:tuple(d.isocalendar())),("timestamp",lambda d:d.timestamp()),("utcoffset",lambda d:d.utcoffset()),("tzname",lambda d:d.tzname()),("dst",lambda d:d.dst()),("ctime",lambda d:d.ctime()),("date",lambda d:d.date()),("time",lambda d:d.time()),("hash",lambda d:hash(d)),("astz",lambda d:d.astimezone(dt.timezone.utc)),("astz2",lambda d:d.astimezone(zoneinfo.ZoneInfo("Asia/Tokyo")).isoformat()),("astzNone",lambda d:d.astimezone().isoformat()), ("fmt", lambda d: format(d, "%H:%M")), ("str", lambda d: str(d)), ("fold", lambda d:d.fold)]
vals=[]
for i in range(6000):
    key=random.choice(zones); u=pick(key)
    try: n=us_to_dt(u).astimezone(zoneinfo.ZoneInfo(key))
    except OverflowError: continue
    p=pendulum.instance(n)
    # twin with p's own tzinfo
    tw=dt.datetime(n.year,n.month,n.day,n.hour,n.minute,n.second,n.microsecond,tzinfo=p.tzinfo,fold=n.fold)
    vals.append((p,n,tw,u))
    for name,f in acc:
        try:a=f(p)
        except Exception as e:a="EXC "+type(e).__name__
        b=f(n)
        if a!=b: bad[name]+=1; ex.setdefault(name,(str(n),n.fold,a,b))
    if not(p==tw and tw==p and hash(p)==hash(tw) and not p!=tw and p<=tw and p>=tw): bad["eq-twin"]+=1; ex.setdefault("eq-twin",(str(p),p.fold))
ops=[("lt",op.lt),("le",op.le),("gt",op.gt),("ge",op.ge),("eq",op.eq),("ne",op.ne)]
for i in range(60000):
    (p1,n1,t1,u1)=random.choice(vals); 
    j = random.randrange(len(vals)); 
    (p2,n2,t2,u2)=vals[j] if random.random()<0.5 else random.choice([v for v in vals[max(0,j-50):j+50]])
    for name,f in ops:
        a=f(p1,p2); b=f(t1,t2); c=f(p1,t2); d=f(t1,p2)
        if not(a==b==c==d): bad["cmp-native "+name]+=1; ex.setdefault("cmp-native "+name,(str(p1),p1.fold,str(p2),p2.fold,a,b,c,d))
    for name,f in ops[:4]:
        exp=f(u1,u2)
        if f(p1,p2)!=exp:
            k="order-instants same-tz" if p1.tzinfo is p2.tzinfo else "order-instants cross-tz"; bad[k]+=1; ex.setdefault(k,(str(p1),p1.fold,str(p2),p2.fold))
    s=p1-p2; sn=t1-t2
    if p1.tzinfo is not p2.tzinfo and s.total_seconds()!=sn.total_seconds(): bad["sub-cross"]+=1
print(bad); [print(k,v) for k,v in ex.items()]
