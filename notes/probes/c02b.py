import pendulum, datetime as dt, time, collections, sys
from tzo import *
from pendulum.tz.exceptions import NonExistingTime, AmbiguousTime
N0 = dt.datetime(1970,1,1)
def wall_us(d): 
    x = dt.datetime(d.year,d.month,d.day,d.hour,d.minute,d.second,d.microsecond)-N0
    return (x.days*86400+x.seconds)*10**6+x.microseconds
def inst(d): return wall_us(d) - int(d.utcoffset().total_seconds())*10**6
stats=collections.Counter(); ex={}
t0=time.time()
zones = pendulum.timezones()
if len(sys.argv)>1: zones = zones[::int(sys.argv[1])]
ntrans=0
for key in zones:
    z = Z(key); ntrans+=len(z.trans)
    for (t,ob,oa) in z.trans:
        lo,hi = sorted(((t+ob)*10**6,(t+oa)*10**6))
        for w in {lo, lo+1, (lo+hi)//2, hi-1, hi, lo-1}:
            wd = N0+dt.timedelta(microseconds=w)
            if wd.year<2 or wd.year>9998: continue
            cands = z.wall_candidates(w); gap = z.gap_for(w)
            for f in (0,1):
                for r in (False,True):
                    try:
                        res = pendulum.datetime(wd.year,wd.month,wd.day,wd.hour,wd.minute,wd.second,wd.microsecond,tz=key,fold=f,raise_on_unknown_times=r); exc=None
                    except (NonExistingTime,AmbiguousTime) as e: res=None; exc=type(e).__name__
                    except Exception as e: res=None; exc="OTHER "+type(e).__name__
                    if len(cands)>=3 or (gap and cands): cls="exotic"
                    elif len(cands)==1: cls="once"
                    elif len(cands)==2: cls="twice"
                    elif gap: cls="gap"
                    else: cls="nogap-nocand"
                    stats[cls]+=1
                    ok=True; why=""
                    if cls=="once":
                        ok = exc is None and inst(res)==cands[0] and wall_us(res)==w
                    elif cls=="twice":
                        if r: ok = exc=="AmbiguousTime"
                        else: ok = exc is None and inst(res)==cands[f] and wall_us(res)==w
                    elif cls=="gap":
                        g=(gap[2]-gap[1])*10**6
                        if r: ok = exc=="NonExistingTime"
                        else:
                            ok = exc is None and wall_us(res)==(w+g if f else w-g) and int(res.utcoffset().total_seconds())==(gap[2] if f else gap[1])
                    else:
                        ok = exc is None or cls=="exotic"
                    if res is not None:
                        # validity
                        if z.off_at(inst(res))!=int(res.utcoffset().total_seconds()): ok=False; why="invalid"
                    if not ok:
                        stats["BAD "+cls]+=1; ex.setdefault((cls,key),(str(wd),f,r,str(res),exc,cands,gap,why))
print(len(zones), ntrans, dict(stats), time.time()-t0)
for k,v in list(ex.items())[:25]: print(k,v)
