import pendulum, datetime as dt, random, collections, sys
from pendulum.parsing import iso8601 as pyp
import pendulum._pendulum as rs
random.seed(12)
stats=collections.Counter(); ex={}
def forms(d):
    y,m,dd=d.year,d.month,d.day; j=d.timetuple().tm_yday; iy,iw,iwd=d.isocalendar()
    return {"cal-ext":f"{y:04d}-{m:02d}-{dd:02d}","cal-bas":f"{y:04d}{m:02d}{dd:02d}","ord-ext":f"{y:04d}-{j:03d}","ord-bas":f"{y:04d}{j:03d}","wk-ext":f"{iy:04d}-W{iw:02d}-{iwd}","wk-bas":f"{iy:04d}W{iw:02d}{iwd}"}
def run(f,s):
    try: return f(s)
    except ValueError as e: return "VE"
    except BaseException as e: return "EXC "+type(e).__name__
def cls(d):
    import calendar
    c=[]
    if d.day==calendar.monthrange(d.year,d.month)[1]: c.append("lastdom")
    if (d.month,d.day)==(12,31): c.append("lastdoy")
    if d.isocalendar()[0]!=d.year: c.append("wkyear!=year")
    return "+".join(c) or "plain"
years=[1583,1600,1900,1999,2000,2004,2015,2020,2021,2026,2100,9999]
for y in years:
    d=dt.date(y,1,1)
    while d.year==y:
        for name,s in forms(d).items():
            if name.startswith("wk") and not (1<=d.isocalendar()[0]<=9999): continue
            for bn,f in (("rs",rs.parse_iso8601),("py",pyp.parse_iso8601)):
                r=run(f,s); stats["n"]+=1
                if r!=d: k=f"BAD {bn} {name} {cls(d)} -> {r if isinstance(r,str) else 'wrongvalue'}"; stats[k]+=1; ex.setdefault(k,(s,str(r)))
            r=run(lambda s: pendulum.parse(s,exact=True), s)
            if not (type(r) is pendulum.Date and (r.year,r.month,r.day)==(d.year,d.month,d.day)): k=f"BAD parse-exact {name} {cls(d)}"; stats[k]+=1; ex.setdefault(k,(s,repr(r)))
        if d==dt.date.max: break
        d+=dt.timedelta(days=1)
# date-times
def offs():
    k=random.choice(["none","Z","hh","hhmm","hh:mm"])
    if k=="none": return "",None
    if k=="Z": return "Z",0
    h=random.randrange(0,24); m=random.choice([0,30,45,59,random.randrange(60)]); sg=random.choice("+-")
    if k=="hh": return f"{sg}{h:02d}", (1 if sg=="+" else -1)*h*3600
    o=(1 if sg=="+" else -1)*(h*3600+m*60)
    return (f"{sg}{h:02d}{m:02d}" if k=="hhmm" else f"{sg}{h:02d}:{m:02d}"), o
for i in range(60000):
    d=dt.date.fromordinal(random.randrange(dt.date(1583,1,1).toordinal(), dt.date(9999,12,31).toordinal()+1))
    ext=random.random()<0.5
    fm=forms(d); ds=fm[random.choice(["cal","ord","wk"])+("-ext" if ext else "-bas")]
    h,mi,s=random.randrange(24),random.randrange(60),random.randrange(60)
    prec=random.choice(["h","hm","hms","hmsf"])
    us=0
    if prec=="h": ts=f"{h:02d}"; mi=s=0
    elif prec=="hm": ts=f"{h:02d}:{mi:02d}" if ext else f"{h:02d}{mi:02d}"; s=0
    else: ts=f"{h:02d}:{mi:02d}:{s:02d}" if ext else f"{h:02d}{mi:02d}{s:02d}"
    if prec=="hmsf":
        n=random.randrange(1,10); digs="".join(random.choice("0123456789") for _ in range(n)); ts+=random.choice(".,")+digs; us=int((digs+"000000")[:6])
    o,osec=offs(); sep=random.choice("T ")
    st=ds+sep+ts+o
    expv=(d.year,d.month,d.day,h,mi,s,us,osec)
    for bn,f in (("rs",rs.parse_iso8601),("py",pyp.parse_iso8601),("parse",pendulum.parse)):
        r=run(f,st); stats["n"]+=1
        if isinstance(r,str): got=r
        else:
            uo=r.utcoffset(); got=(r.year,r.month,r.day,r.hour,r.minute,r.second,r.microsecond, None if uo is None else int(uo.total_seconds()))
            if bn=="parse" and osec is None: got=got[:7]+(None,) if got[7]==0 else got
        if got!=expv:
            k=f"BAD dt {bn} {'ext' if ext else 'bas'} prec={prec} nfrac={len(digs) if prec=='hmsf' else 0} off={'none' if osec is None else o[:1]+str(len(o))} sep={sep!r} -> {got if isinstance(got,str) else 'wrongvalue'}"
            stats[k]+=1; ex.setdefault(k,(st,got,expv))
tot=0
for k,v in sorted(stats.items()):
    if k.startswith("BAD dt"): tot+=v; continue
    print(k,v,ex.get(k,""))
agg=collections.Counter()
for k,v in stats.items():
    if k.startswith("BAD dt"):
        import re
        agg[re.sub(r"nfrac=\d+ ","",re.sub(r" sep=.* ->"," ->",k))]+=v
for k,v in sorted(agg.items()): print(k,v)
for k,v in list(ex.items()):
    if k.startswith("BAD dt"): print(k,v); 
