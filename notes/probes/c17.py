import pendulum, random, collections, sys
random.seed(6)
seeds = ["2020-02-29T10:11:12.123456+05:30","2020-060","2020-W09-6","20200229T101112Z","10:11:12","P1Y2M3DT4H5M6S","P2W","2020-01-01/P1M","P1D/2020-01-01T00:00:00Z","2020-01-01T00:00:00Z/2020-02-01T00:00:00Z","2020-02-29 10:11:12","PT1.5S","2020-02","2:","2020/01/01","12:30"]
alpha = "0123456789:TZW/P+-., YMDHS"
kinds = collections.Counter(); ex={}
def run(s, **opt):
    try:
        r = pendulum.parse(s, **opt)
        kinds["ok "+type(r).__name__]+=1
    except ValueError as e:
        kinds["VE"]+=1
    except BaseException as e:
        k = type(e).__name__+": "+str(e)[:50]
        k2 = type(e).__name__
        kinds[k2]+=1; ex.setdefault(k,(s,opt))
N=0
for s in seeds:
    muts=set()
    for i in range(len(s)+1):
        for c in alpha:
            muts.add(s[:i]+c+s[i:]); 
            if i<len(s): muts.add(s[:i]+c+s[i+1:])
        if i<len(s): muts.add(s[:i]+s[i+1:])
        muts.add(s[:i])
    for m in muts:
        N+=1
        run(m); run(m, strict=False); run(m, exact=True)
for s in ["2:", "P/P", "P99999999999D", "١٢:٣٠", "٢٠٢٠-٠١-٠١", "", " ", "now", "2020-01-01T00:00:00+99:99", "0000-01-01", "9999-12-31T23:59:59.999999-23:59", "10000-01-01"]:
    run(s); run(s, strict=False)
print(N, kinds)
for k,v in list(ex.items())[:40]: print(k, v)
