#!/usr/bin/env python3
"""tools/seed_matrix.py [name ...]
Regression run of the kept seeded changes: for every /verif/seeded/<name>/ (or the named ones) the patch is applied to
a scratch worktree of /repo HEAD under /tmp/mut (never to /repo), the quick check of the seed's property is run against
it (PVMON_REPO / PVMON_OUT redirected) and must exit 1.  Writes seeded/MATRIX.md when run without names.
A patch that no longer applies to HEAD (a later fix: commit touched the same lines) is reported as STALE."""
import json
import os
import re
import subprocess
import sys
import time

V = os.path.dirname(os.path.dirname(os.path.abspath(__file__)))
sel = sys.argv[1:]
rows = []
for name in sorted(os.listdir(os.path.join(V, "seeded"))):
    d = os.path.join(V, "seeded", name)
    if not os.path.isdir(d) or (sel and name not in sel):
        continue
    prop = json.load(open(os.path.join(d, "meta.json")))["property"]
    t0 = time.time()
    r = subprocess.run([sys.executable, os.path.join(V, "tools", "try_seed.py"), os.path.join(d, "patch.diff"), prop], capture_output=True, text=True)
    out = r.stdout
    if "PATCH DOES NOT APPLY" in out:
        verdict = "STALE"
    else:
        m = re.search(r"== \S+ quick: (\S+)", out)
        verdict = m.group(1) if m else "?"
    sigs = re.findall(r"signature=(\S+) count=(\d+)", out)
    rows.append((name, prop, verdict, len(sigs), sum(int(c) for _, c in sigs), ", ".join(s for s, _ in sigs[:3])))
    print(f"{name:6s} {prop} {verdict:12s} {time.time() - t0:5.0f}s sigs>={len(sigs)} {sigs[:2]}", flush=True)
if not sel:
    with open(os.path.join(V, "seeded", "MATRIX.md"), "w") as f:
        f.write("# Kept seeded changes vs the current quick checks (tools/seed_matrix.py)\n\n| seed | property | verdict | signatures shown | witnesses | first signatures |\n|---|---|---|---|---|---|\n")
        for r_ in rows:
            f.write("| %s | %s | %s | %d | %d | %s |\n" % r_)
        f.write(f"\n{sum(1 for r_ in rows if r_[2] == 'CAUGHT')} of {len(rows)} caught.\n")
bad = [r_[0] for r_ in rows if r_[2] != "CAUGHT"]
print("not caught:", bad)
sys.exit(1 if bad else 0)
