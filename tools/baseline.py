#!/usr/bin/env python3
"""Runs the repository's suite (guard off: there are no source hooks) and compares the pass set with BASELINE.json."""
import json, os, subprocess, sys, tempfile, xml.etree.ElementTree as ET
repo = sys.argv[1] if len(sys.argv) > 1 else "/repo"
base = set(json.load(open("/root/.vp/BASELINE.json"))["stable_pass"])
with tempfile.TemporaryDirectory() as d:
    x = os.path.join(d, "j.xml")
    env = dict(os.environ); env.pop("PENDULUM_EXTENSIONS", None); env.pop("PYTHONPATH", None)
    if repo != "/repo":
        env["PYTHONPATH"] = os.path.join(repo, "src")
    subprocess.run(["/venv/bin/python", "-m", "pytest", "-q", "-p", "no:cacheprovider", "--timeout=900",
                    "--continue-on-collection-errors", f"--junitxml={x}"] , cwd=repo, env=env,
                   stdout=subprocess.DEVNULL, stderr=subprocess.DEVNULL)
    passed = set()
    for tc in ET.parse(x).getroot().iter("testcase"):
        if not any(c.tag in ("failure", "error", "skipped") for c in tc):
            passed.add(f"{tc.get('classname')}::{tc.get('name')}")
lost = sorted(base - passed)
print(f"baseline stable_pass={len(base)} passed_now={len(passed)} lost={len(lost)} gained={len(passed - base)}")
for l in lost[:20]: print("  LOST", l)
sys.exit(1 if lost else 0)
