#!/usr/bin/env python3
"""Regenerates MANIFEST.json from the property modules present in pvmon/props (run by hand)."""
import importlib, json, os, sys
V = os.path.dirname(os.path.dirname(os.path.abspath(__file__)))
sys.path.insert(0, V)
props = [json.loads(l) for l in open(os.path.join(V, "properties.jsonl"))]
checks, na = [], []
for p in props:
    pid = p["id"]
    path = os.path.join(V, "pvmon", "props", pid.lower() + ".py")
    if not os.path.isfile(path):
        na.append({"property_id": pid, "reason": "check not implemented yet in this commit (planned: DESIGN.md §5)"})
        continue
    mod = importlib.import_module("pvmon.props." + pid.lower())
    checks.append({
        "property_id": pid,
        "quick_cmd": f"./check {pid} quick",
        "thorough_cmd": f"./check {pid} thorough",
        "evidence_file": f"evidence/{pid}.json",
        "replay_cmd_template": "./check replay {path}",
        "engine": "pvmon" + ("+ext-ovf" if "ovf" in mod.PLAN["quick"]["configs"] else ""),
        "level_claimed": {"category": "exploration", "text": mod.LEVEL_TEXT, "design_ref": f"DESIGN.md §5 {pid}"},
        "level_note": "; ".join(mod.ASSUMPTIONS),
        "technique": mod.TECHNIQUE,
    })
m = {
    "version": 1,
    "setup_cmd": "./check setup",
    "hooks": {
        "guard": "PENDULUM_VERIF",
        "enable": "no source hooks: monitors are attached from outside by pvmon.worker (contract wrappers on the real "
                  "classes/modules) after importing /repo/src; the extension is rebuilt from /repo/rust with cargo "
                  "into /verif/.cache and pre-seeded as pendulum._pendulum",
        "baseline_off_cmd": "cd /repo && /venv/bin/python -m pytest -ra -q -p no:cacheprovider --timeout=900 "
                            "--continue-on-collection-errors",
        "source_commits": [],
        "add_only": True,
    },
    "engines": [
        {"name": "pvmon", "path": "pvmon/", "serves_properties": [c["property_id"] for c in checks],
         "kind_free_text": "runtime monitors: contract wrappers (oracle at a hook) on the real functions, "
                           "reference-model oracles, offline checkers over recorded logs (round trips, backend "
                           "agreement joins), driven by enumerated + hostile + random workloads in sharded subprocesses"},
        {"name": "ext-ovf", "path": "pvmon/cli.py", "serves_properties": [c["property_id"] for c in checks if "ovf" in c["engine"]],
         "kind_free_text": "second cargo build of the extension with overflow-checks and debug-assertions on: "
                           "integer sanitizer, every arithmetic wrap reached by the workload becomes a PanicException"},
    ],
    "checks": checks,
    "not_applicable": na,
    "notes": "exit 0 held on what was observed / 1 violation / 2 inconclusive (deciding monitor below its floor, "
             "watchdog, oracle self-check or build failure). KNOWN_FINDINGS.json is read-only at run time.",
}
json.dump(m, open(os.path.join(V, "MANIFEST.json"), "w"), indent=1)
print(len(checks), "checks,", len(na), "not yet")
