#!/usr/bin/env python3
"""tools/try_seed.py <patch.diff> <Cxx> [<Cxx> ...] [--tier quick]
Applies the patch to a scratch worktree of /repo (never to /repo itself), runs the named checks against it with
PVMON_REPO/PVMON_OUT redirected, prints which raised a VIOLATION, removes the worktree and its build output."""
import hashlib, os, shutil, subprocess, sys
V = os.path.dirname(os.path.dirname(os.path.abspath(__file__)))
args = [a for a in sys.argv[1:] if not a.startswith("--")]
tier = "thorough" if "--thorough" in sys.argv else "quick"
patch, props = os.path.abspath(args[0]), args[1:]
name = "mut-" + hashlib.sha1(patch.encode()).hexdigest()[:8]
wt = f"/tmp/mut/{name}"
out = f"/tmp/mut/{name}-out"
os.makedirs("/tmp/mut", exist_ok=True)
subprocess.run(["git", "-C", "/repo", "worktree", "remove", "--force", wt], capture_output=True)
subprocess.run(["git", "-C", "/repo", "worktree", "add", "-q", "--detach", wt, "HEAD"], check=True)
rc = 0
try:
    r = subprocess.run(["git", "-C", wt, "apply", patch], capture_output=True, text=True)
    if r.returncode:
        print("PATCH DOES NOT APPLY:", r.stderr); sys.exit(3)
    env = dict(os.environ, PVMON_REPO=wt, PVMON_OUT=out)
    for p in props:
        r = subprocess.run([os.path.join(V, "check"), p, tier], env=env, capture_output=True, text=True)
        lines = [l for l in r.stdout.splitlines() if l.startswith(("VIOLATION", "  signature", "INCONCLUSIVE", "HELD")) or " quick:" in l or " thorough:" in l]
        verdict = {0: "MISSED (held)", 1: "CAUGHT", 2: "INCONCLUSIVE"}.get(r.returncode, f"rc={r.returncode}")
        print(f"== {p} {tier}: {verdict}")
        sigs = [l for l in lines if l.startswith("  signature")]
        for l in sigs[:10] + [l for l in lines if not l.startswith(("  signature", "VIOLATION"))]:
            print("   ", l[:230])
        if len(sigs) > 10:
            print(f"    ... {len(sigs)} signatures in all")
        if r.returncode not in (0, 1, 2):
            print(r.stdout[-1500:], r.stderr[-1500:])
finally:
    subprocess.run(["git", "-C", "/repo", "worktree", "remove", "--force", wt], capture_output=True)
    shutil.rmtree(out, ignore_errors=True)
    tag = hashlib.sha1(os.path.realpath(wt).encode()).hexdigest()[:8]
    for k in ("rel", "ovf"):
        shutil.rmtree(os.path.join(V, ".cache", "cargo", f"{k}-{tag}"), ignore_errors=True)
