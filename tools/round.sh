#!/bin/bash
# tools/round.sh <pid> [extra props...]: keep_seed + try_seed for one sub-agent worktree /tmp/wt/<pid>; log in /tmp/wt/<pid>.round.out
pid=$1; shift
prop=${pid:0:3}
{
  /verif/tools/keep_seed.sh $pid
  if [ -f /verif/seeded/$pid/patch.diff ]; then
    /venv/bin/python /verif/tools/try_seed.py /verif/seeded/$pid/patch.diff $prop "$@"
  fi
} > /tmp/wt/$pid.round.out 2>&1
echo "$pid done: $(grep -E '^(demo with|KEPT|NOT KEPT|== )' /tmp/wt/$pid.round.out | tr '\n' '|')"
