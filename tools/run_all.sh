#!/bin/bash
# tools/run_all.sh <quick|thorough> [seed] [props...] : runs the checks one after the other, summary to out/summary-<tier>-<seed>.txt
cd "$(dirname "$0")/.."
tier=${1:-quick}; seed=${2:-0}; shift 2 2>/dev/null
props=${@:-C01 C02 C03 C04 C05 C06 C07 C08 C09 C10 C11 C12 C13 C14 C15 C16 C17 C18 C19 C20}
mkdir -p out
sum=out/summary-$tier-$seed.txt; : > $sum
for p in $props; do
  t0=$(date +%s)
  VERIF_SEED=$seed ./check $p $tier > out/log-$p-$tier-$seed.txt 2>&1; rc=$?
  echo "$p $tier seed=$seed rc=$rc $(( $(date +%s)-t0 ))s $(grep -E "^$p $tier:" out/log-$p-$tier-$seed.txt | cut -c1-140)" >> $sum
  grep -E "^VIOLATION|^INCONCLUSIVE" out/log-$p-$tier-$seed.txt | cut -c1-300 >> $sum
done
echo DONE >> $sum
