#!/bin/bash
# tools/keep_seed.sh <pid> [suffix]: verify a sub-agent's change in /tmp/wt/<pid> and keep it as /verif/seeded/<pid><suffix>/
set -e
pid=$1; sfx=$2; wt=/tmp/wt/$pid; dst=/verif/seeded/$pid$sfx
cd $wt
git reset -q >/dev/null 2>&1 || true
git diff -- src rust > /tmp/wt/$pid.patch
test -s /tmp/wt/$pid.patch || { echo "EMPTY PATCH"; exit 1; }
test -f demo.py || { echo "NO demo.py"; exit 1; }
if git diff --name-only -- rust | grep -q .; then echo "RUST CHANGED: rebuilding"; (cd rust && PYO3_PYTHON=/venv/bin/python cargo build --release --offline --features extension-module >/dev/null 2>&1 && cp target/release/lib_pendulum.so ../src/pendulum/_pendulum.cpython-312-x86_64-linux-gnu.so); fi
set +e
PYTHONPATH=$wt/src /venv/bin/python demo.py >/tmp/wt/$pid.with.out 2>&1; with=$?
PYTHONPATH=$wt/src PENDULUM_EXTENSIONS=0 /venv/bin/python demo.py >/tmp/wt/$pid.with0.out 2>&1; with0=$?
/venv/bin/python /verif/tools/baseline.py $wt > /tmp/wt/$pid.suite.out 2>&1; suite=$?
# without the change
git apply -R /tmp/wt/$pid.patch
if grep -q "^diff --git a/rust/" /tmp/wt/$pid.patch; then (cd rust && PYO3_PYTHON=/venv/bin/python cargo build --release --offline --features extension-module >/dev/null 2>&1 && cp target/release/lib_pendulum.so ../src/pendulum/_pendulum.cpython-312-x86_64-linux-gnu.so); fi
cp /tmp/wt/$pid.patch /dev/null
PYTHONPATH=$wt/src /venv/bin/python demo.py >/tmp/wt/$pid.without.out 2>&1; without=$?
git apply /tmp/wt/$pid.patch
if grep -q "^diff --git a/rust/" /tmp/wt/$pid.patch; then (cd rust && PYO3_PYTHON=/venv/bin/python cargo build --release --offline --features extension-module >/dev/null 2>&1 && cp target/release/lib_pendulum.so ../src/pendulum/_pendulum.cpython-312-x86_64-linux-gnu.so); fi
set -e
echo "demo with change: exit=$with (ext) / $with0 (pure python); without change: exit=$without; suite unchanged: $([ $suite = 0 ] && echo yes || echo NO)"
tail -2 /tmp/wt/$pid.suite.out
if [ $without = 0 ] && [ $suite = 0 ] && { [ $with != 0 ] || [ $with0 != 0 ]; }; then
  mkdir -p $dst; cp /tmp/wt/$pid.patch $dst/patch.diff; cp demo.py $dst/demo.py
  echo "KEPT in $dst"
else
  echo "NOT KEPT"
fi
