#!/bin/bash
# tools/mkworktree.sh <name>  -> scratch git worktree of /repo under /tmp/wt/<name> with the current extension copied in
set -e
d=/tmp/wt/$1
mkdir -p /tmp/wt
git -C /repo worktree add -q --detach "$d" HEAD
cp /repo/src/pendulum/_pendulum.cpython-312-x86_64-linux-gnu.so "$d/src/pendulum/"
echo "$d"
