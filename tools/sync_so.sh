#!/bin/bash
# copies the freshly built release extension over the git-ignored in-tree .so so that the repository's own
# suite exercises the current Rust sources (the checks never load the in-tree .so)
set -e
cd "$(dirname "$0")/.."
so=$(PYTHONPATH=$PWD /venv/bin/python -c "from pvmon import cli; print(cli.build('rel'))")
cp "$so" /repo/src/pendulum/_pendulum.cpython-312-x86_64-linux-gnu.so
echo synced "$so"
